#![no_main]
//! C19: the six coordinate / move parsers on fuzzer-made text.
use libfuzzer_sys::fuzz_target;
use verif_core::fuzzglue::report;
use verif_core::props::c19;

fuzz_target!(|data: &[u8]| {
    let s = String::from_utf8_lossy(data);
    report("C19", c19::check_string(&s));
});
