#![no_main]
//! C20: the SAN reader on fuzzer-made text against boards from the seed list (first two bytes pick the board).
use libfuzzer_sys::fuzz_target;
use verif_core::fuzzglue::{report, san_on_seed_board};

fuzz_target!(|data: &[u8]| {
    if data.len() < 2 {
        return;
    }
    let idx = u16::from_le_bytes([data[0], data[1]]) as usize;
    let s = String::from_utf8_lossy(&data[2..]);
    report("C20", san_on_seed_board(idx, &s));
});
