#![no_main]
//! C01/C02/C03/C14/C12: fuzzer bytes are decoded (harness/src/fuzzdecode.rs) into the same structured case the proptest strategies build: a
//! (start, ops) case; every visited board is judged by the same oracles as the proptest runs.
use libfuzzer_sys::fuzz_target;
use verif_core::fuzzglue::{positions_from_bytes, report};

fuzz_target!(|data: &[u8]| {
    for (id, r) in positions_from_bytes(data) {
        report(id, r);
    }
});
