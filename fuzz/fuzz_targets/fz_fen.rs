#![no_main]
//! C08 (totality, strictness, decoding) and C06 (soundness of every accepted board) on fuzzer-made text.
use libfuzzer_sys::fuzz_target;
use verif_core::fuzzglue::report;
use verif_core::props::{c06, c08};

fuzz_target!(|data: &[u8]| {
    let s = String::from_utf8_lossy(data);
    report("C08", c08::check_string(&s));
    report("C06", c06::check_text(&s));
});
