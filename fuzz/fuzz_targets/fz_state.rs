#![no_main]
//! C09 / C06: fuzzer bytes drive the edited-builder-state strategy (pass-through RNG); the state goes
//! through the builder-vs-parser differential, the labelled single-aspect check and the soundness check.
use libfuzzer_sys::fuzz_target;
use verif_core::fuzzglue::{report, state_from_bytes};

fuzz_target!(|data: &[u8]| {
    for (id, r) in state_from_bytes(data) {
        report(id, r);
    }
});
