#![no_main]
//! C09 / C06: fuzzer bytes are decoded (harness/src/fuzzdecode.rs) into an edited builder state, which goes
//! through the builder-vs-parser differential, the labelled single-aspect check and the soundness check.
use libfuzzer_sys::fuzz_target;
use verif_core::fuzzglue::{report, state_from_bytes};

fuzz_target!(|data: &[u8]| {
    for (id, r) in state_from_bytes(data) {
        report(id, r);
    }
});
