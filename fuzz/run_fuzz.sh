#!/usr/bin/env bash
# fuzz/run_fuzz.sh <ID>  - thorough-tier libFuzzer campaign for the properties that have a byte/string domain
# or a strategy-driven position target. Fixed work (-runs), generous wall-clock cap; exit 0 held, 1 violation,
# 2 inconclusive. Called by ./check <ID> thorough after the proptest part passed.
set -u
ROOT="$(cd "$(dirname "$0")/.." && pwd)"
ID="$1"
case "$ID" in
  C08|C06) TARGET=fz_fen;  RUNS=4000000; MAXLEN=160 ;;
  C09)     TARGET=fz_state; RUNS=400000; MAXLEN=600 ;;
  C19)     TARGET=fz_text; RUNS=6000000; MAXLEN=24 ;;
  C20)     TARGET=fz_san;  RUNS=2500000; MAXLEN=20 ;;
  C01|C02|C03|C10|C12|C14) TARGET=fz_pos; RUNS=25000; MAXLEN=1200 ;;
  *) exit 0 ;;
esac
export VERIF_ROOT="$ROOT" CARGO_NET_OFFLINE=true
SEED="${VERIF_SEED:-1}"; [ "$SEED" = 0 ] && SEED=1
JOBS=8
LOGDIR="$ROOT/work/fuzzlogs/$ID-$TARGET"; CORPUS="$ROOT/work/corpus/$ID-$TARGET"; ART="$ROOT/fuzz/artifacts/$TARGET"
rm -rf "$LOGDIR" "$CORPUS" "$ART"; mkdir -p "$LOGDIR" "$CORPUS" "$ART"
cp "$ROOT/fuzz/seeds/$TARGET/"* "$CORPUS/" 2>/dev/null
cd "$ROOT/harness" || exit 2
if ! cargo +nightly fuzz build --fuzz-dir "$ROOT/fuzz" "$TARGET" >"$LOGDIR/build.log" 2>&1; then
  echo "INFRASTRUCTURE: fuzz build failed (see $LOGDIR/build.log)" >&2; tail -n 20 "$LOGDIR/build.log" >&2; exit 2
fi
BIN="$ROOT/fuzz/target/x86_64-unknown-linux-gnu/release/$TARGET"
START=$(date +%s)
( cd "$LOGDIR" && "$BIN" "$CORPUS" -runs=$RUNS -max_len=$MAXLEN -len_control=0 -seed=$SEED -jobs=$JOBS -workers=$JOBS \
    -max_total_time=1500 -timeout=60 -print_final_stats=1 -artifact_prefix="$ART/" >"$LOGDIR/driver.log" 2>&1 )
RC=$?
END=$(date +%s)
EXECS=$(grep -h "stat::number_of_executed_units" "$LOGDIR"/fuzz-*.log 2>/dev/null | awk '{s+=$2} END{print s+0}')
NCORP=$(ls "$CORPUS" | wc -l)
VIOL=$(grep -h "^VIOLATION" "$LOGDIR"/fuzz-*.log "$LOGDIR/driver.log" 2>/dev/null | sort -u)
python3 - "$ROOT/evidence/$ID.json" "$TARGET" "$EXECS" "$NCORP" "$((END-START))" "$JOBS" "$RUNS" <<'PY'
import json,sys
path,target,execs,ncorp,wall,jobs,runs=sys.argv[1:]
try:
    e=json.load(open(path))
    e["coverage"]["libfuzzer"]={"target":target,"executions":int(execs),"corpus_files":int(ncorp),"wall_s":int(wall),"jobs":int(jobs),"runs_per_job":int(runs),"oracle":"same check functions as the proptest part; a violation writes a replay file and aborts"}
    e["coverage"]["evaluations"]=int(e["coverage"]["evaluations"])+int(execs)
    json.dump(e,open(path,"w"),indent=1)
except Exception as ex:
    print("could not update evidence:",ex,file=sys.stderr)
PY
echo "$ID thorough libFuzzer target=$TARGET executions=$EXECS corpus=$NCORP wall=$((END-START))s"
if [ -n "$VIOL" ]; then echo "$VIOL"; exit 1; fi
if ls "$ART"/crash-* "$ART"/oom-* "$ART"/timeout-* >/dev/null 2>&1; then
  echo "INFRASTRUCTURE: libFuzzer stopped on an input without a VIOLATION report (crash/oom/timeout artifact in $ART); inconclusive" >&2
  exit 2
fi
if [ $RC -ne 0 ]; then echo "INFRASTRUCTURE: libFuzzer driver exit $RC (see $LOGDIR)" >&2; exit 2; fi
exit 0
