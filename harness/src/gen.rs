//! Generators. Every random choice lives in a proptest strategy; `assemble` and `walk`
//! are pure functions of the generated ingredients, so shrinking and replay work.

use crate::bridge::*;
use crate::refmodel::*;
use cozy_chess::Board;
use proptest::collection::vec;
use proptest::prelude::*;

pub const SEED_FENS: &str = include_str!("../data/seeds.sfens");
pub const INVALID_SEED_FENS: &str = include_str!("../data/invalid_seeds.sfens");

pub fn seed_fens() -> Vec<&'static str> {
    SEED_FENS.lines().filter(|l| !l.is_empty()).collect()
}

// ------------------------------------------------------------------------------------------
// Ingredients of a constructed position

#[derive(Clone, Debug)]
pub enum Motif {
    None,
    /// King and rook(s) on the back rank in Chess960 geometry, enemy pieces aimed at the path.
    Castle {
        black: bool,
        kf: u8,
        short_sel: u8,
        long_sel: u8,
        /// (kind selector, target file on the back rank, distance, direction selector)
        attackers: Vec<(u8, u8, u8, u8)>,
        /// (file on the back rank, kind selector, own piece?)
        blockers: Vec<(u8, u8, bool)>,
    },
    /// En-passant situations with discovered attacks.
    Ep {
        black_mover: bool,
        file: u8,
        /// piece standing left / right of the victim pawn: 0 none, 1..=4 own pawn, 5 bishop, 6 queen, 7 knight, 8 own king
        left: u8,
        right: u8,
        /// 0 free king, 1 king on the victim's rank + enemy R/Q on the far side, 2 king on a
        /// diagonal through the victim, slider behind, 3 king on the capturer's file with a
        /// rook beyond, 4 victim pawn gives check, 5 slider checks through the vacated origin,
        /// 6 king on a diagonal through the capturer, 7 THEIR king on a diagonal through the victim
        /// with OUR slider behind (capture discovers a check), 8 the same along the victim's rank
        king_mode: u8,
        a: u8,
        b: u8,
        c: u8,
    },
    /// Mover's king with enemy sliders on its lines and 0..2 pieces between.
    Pins {
        black: bool,
        ksq: u8,
        /// (direction 0..8, slider kind selector, slider distance, blockers (distance, kind selector, own?))
        rays: Vec<(u8, u8, u8, Vec<(u8, u8, bool)>)>,
        knight: Option<u8>,
        pawn: Option<u8>,
    },
    /// Pawns about to promote, with capture targets on the last rank.
    Promo {
        black: bool,
        pawns: Vec<u8>,
        targets: Vec<(u8, u8)>,
        enemy_kf: u8,
        enemy_rights: bool,
    },
    /// A pawn on its start rank shields the enemy king from one of our sliders (rank or
    /// diagonal): the double push discovers a check *and* sets an en-passant file.
    PreEp {
        black: bool,
        file: u8,
        dir: u8,
        dk: u8,
        ds: u8,
        queen: bool,
        /// enemy pawn that could capture en passant afterwards: 0 none, 1 left, 2 right, 3 both
        capturers: u8,
    },
    /// Sixteen mobile men, both castling rights, two en-passant capturers: the positions where
    /// the number of move batches is at its maximum.
    Crowded {
        black: bool,
        ep_file: u8,
        pawn_ranks: [u8; 8],
        pieces: Vec<(u8, u8)>,
        enemy_kf: u8,
    },
    /// An enemy slider looks at our king through exactly one ENEMY piece while the enemy king is
    /// boxed in by its own men; the history starts with a null move, so that whatever was
    /// remembered about pins before the pass is put to the test (the blocker is often the only
    /// enemy piece that can move).
    Battery {
        black: bool,
        ksq: u8,
        dir: u8,
        dist: u8,
        blocker_dist: u8,
        slider_queen: bool,
        blocker_kind: u8,
        corner: u8,
        boxed: u8,
    },
    /// Like Battery, but the enemy is stalemated except for the battery's front piece: its
    /// bishop sits in a corner behind the blocker, its king is boxed in by three of our pawns.
    /// After our null move the enemy's only legal moves are those of the blocker.
    BatteryStalemate {
        black: bool,
        right_corner: bool,
        d: u8,
        kf: u8,
        p3_right: bool,
        blocker_kind: u8,
    },
    /// The mover's only candidate move is an en-passant capture: its king has no flight square
    /// (enemy pieces are added greedily until every neighbour is covered), the capturing pawn is
    /// blocked, and - unless `with_slider` is false - an enemy bishop/queen stands behind the
    /// victim pawn on the king's diagonal, so the capture is illegal and the position stalemate.
    EpStalemate {
        black: bool,
        file: u8,
        capturer_right: bool,
        dir: u8,
        dk: u8,
        ds: u8,
        with_slider: bool,
        queen: bool,
    },
    /// Castling is the mover's ONLY legal move: king and rook stand next to each other and swap
    /// squares (Kf1/Rg1 short or Kd1/Rc1 long), everything else is blocked or covered.
    CastleOnly {
        black: bool,
        long: bool,
        cover_queen: bool,
        cover_dist: u8,
        /// drop one element of the cage (0 = complete cage), so that near misses occur too
        drop: u8,
    },
    /// Castling delivers check along the rook's new file to a king caged by its own men: mate
    /// when the cage is complete (rooks beside the king cannot interpose), only check in the
    /// near-miss variants.
    CastleMate {
        black: bool,
        long: bool,
        /// 0 complete cage; 1 a knight instead of a rook beside the king (it can interpose);
        /// 2 one cage pawn missing (flight square); 3 a blocker on the file (no check at all)
        variant: u8,
    },
    /// Many of our rooks/queens/bishops stacked on the three lines of a cornered enemy king,
    /// each line closed by one of our knights next to the king: moving a knight discovers a
    /// check from a slider that is the ninth, tenth, ... aligned slider in square order.
    SliderSwarm {
        black: bool,
        corner: u8,
        file_n: u8,
        rank_n: u8,
        diag_n: u8,
        diag_queen_far: bool,
    },
    /// All thirty-two men (minus `drop`), four per rank on alternating files: the placement text
    /// is as long as it can be (71 characters when nothing is dropped or removed).
    /// `rich`: additionally all four castling rights (king on c, rooks on a and e) and an
    /// en-passant file, so that with clocks at 100 / >= 10000 the record has its maximal length.
    Dense { phases: u8, kinds: [u8; 32], drop: u8, rich: bool },
    /// The mover owns 8..12 pieces of ONE kind (more than any game could give it) and pawns about
    /// to promote; the enemy king stands on a square none of them attacks, if there is one.
    PromoGlut { black: bool, kind_sel: u8, count: u8, squares: [u8; 12], pawn_files: Vec<u8>, enemy_k: u8 },
    /// King near an edge with a few enemy pieces close by: mates and stalemates.
    Net {
        black: bool,
        ksq: u8,
        pieces: Vec<(u8, i8, i8)>,
        enemy_k: (i8, i8),
    },
}

#[derive(Clone, Debug)]
pub struct Ingredients {
    pub motif: Motif,
    pub wk: u8,
    pub bk: u8,
    /// (kind selector, black?, square)
    pub extras: Vec<(u8, bool, u8)>,
    pub stm_black: bool,
    pub rights_sel: [u8; 4],
    pub ep_sel: u8,
    pub hm_sel: u8,
    pub hm_raw: u8,
    pub fm_sel: u8,
    pub fm_raw: u16,
    /// keep more than two checkers if they arise (the library must reject those)
    pub keep_multi: bool,
}

const EXTRA_KINDS: [Kind; 16] = [
    Kind::P, Kind::P, Kind::P, Kind::P, Kind::P, Kind::P, Kind::N, Kind::N, Kind::B, Kind::B, Kind::R, Kind::R, Kind::Q, Kind::Q, Kind::N, Kind::R,
];
const PIECE_KINDS: [Kind; 8] = [Kind::Q, Kind::R, Kind::B, Kind::N, Kind::P, Kind::Q, Kind::R, Kind::N];
const DIRS8: [(i32, i32); 8] = [(0, 1), (1, 1), (1, 0), (1, -1), (0, -1), (-1, -1), (-1, 0), (-1, 1)];

fn side_of(black: bool) -> Side {
    if black {
        Side::B
    } else {
        Side::W
    }
}

struct Builder {
    st: RawState,
}

impl Builder {
    fn men(&self, side: Side) -> usize {
        self.st.board.iter().filter(|p| matches!(p, Some((_, s)) if *s == side)).count()
    }
    fn pawns(&self, side: Side) -> usize {
        self.st.board.iter().filter(|&&p| p == Some((Kind::P, side))).count()
    }
    /// Place a piece if the square is on the board and free and the per-side limits allow it.
    fn put(&mut self, f: i32, r: i32, kind: Kind, side: Side) -> bool {
        if !on_board(f, r) {
            return false;
        }
        let s = sq(f, r) as usize;
        if self.st.board[s].is_some() {
            return false;
        }
        if kind == Kind::K {
            // one king per side, never next to the other king (adjacent kings are produced on
            // purpose only by the edit generator in gen2.rs)
            if self.st.king_sq(side).is_some() || self.kings_adjacent_to(f, r, side.other()) {
                return false;
            }
        } else if self.men(side) >= 15 + self.st.king_sq(side).is_some() as usize {
            return false;
        }
        if kind == Kind::P && (r == 0 || r == 7 || self.pawns(side) >= 8) {
            return false;
        }
        self.st.board[s] = Some((kind, side));
        true
    }
    fn kings_adjacent_to(&self, f: i32, r: i32, other: Side) -> bool {
        match self.st.king_sq(other) {
            Some(k) => (file_of(k) - f).abs() <= 1 && (rank_of(k) - r).abs() <= 1,
            None => false,
        }
    }
    /// Place a king at or near the wanted square: first free square (scanning forward from the
    /// wanted index) that is not adjacent to the other king.
    fn put_king(&mut self, want: u8, side: Side) {
        if self.st.king_sq(side).is_some() {
            return;
        }
        for i in 0..64u32 {
            let s = ((want as u32 + i * 7) % 64) as u8; // 7 is coprime to 64: visits every square
            let (f, r) = (file_of(s), rank_of(s));
            if self.st.board[s as usize].is_none() && !self.kings_adjacent_to(f, r, side.other()) {
                self.st.board[s as usize] = Some((Kind::K, side));
                return;
            }
        }
    }
}

#[derive(Default)]
struct Hints {
    stm: Option<Side>,
    ep_file: Option<u8>,
    /// rights wanted: (side, wing, rook file)
    rights: Vec<(Side, usize, u8)>,
    /// do not auto-pick further rights for this side
    rights_fixed: [bool; 2],
    /// the motif's layout is the whole placement: ignore the extras
    no_extras: bool,
}

fn apply_motif(b: &mut Builder, m: &Motif, h: &mut Hints) {
    match m {
        Motif::None => {}
        Motif::Castle { black, kf, short_sel, long_sel, attackers, blockers } => {
            let us = side_of(*black);
            let them = us.other();
            let br = us.back_rank();
            // b..g mostly; the corners a/h too (a king there can still hold one right on an
            // accepted board although no start position has it)
            let kf = if *kf as i32 % 8 < 6 { 1 + (*kf as i32 % 6) } else if *kf as i32 % 8 == 6 { 0 } else { 7 };
            b.put(kf, br, Kind::K, us);
            h.stm = Some(us);
            h.rights_fixed[us.idx()] = true;
            // short rook: files kf+1..=7 ; selector 0 = none (1 in 5)
            if short_sel % 5 != 0 && kf < 7 {
                let n = 7 - kf;
                // selector class 1: rook on the g-file when possible (pinned-rook geometry h1/g1)
                let rf = if short_sel % 5 == 1 && kf < 6 { 6 } else { kf + 1 + (*short_sel as i32 / 5) % n };
                if b.put(rf, br, Kind::R, us) {
                    h.rights.push((us, 0, rf as u8));
                }
            }
            if long_sel % 5 != 0 && kf > 0 {
                let n = kf;
                // selector class 1: rook on the b-file when possible (pinned-rook geometry a1/b1)
                let rf = if long_sel % 5 == 1 && kf > 1 { 1 } else { (*long_sel as i32 / 5) % n };
                if b.put(rf, br, Kind::R, us) {
                    h.rights.push((us, 1, rf as u8));
                }
            }
            let up = us.fwd();
            for &(ksel, tf, dist, dir) in attackers {
                let tf = tf as i32 % 8;
                let d = 1 + dist as i32 % 7;
                match ksel % 8 {
                    0 | 1 => {
                        // rook / queen on the target's file
                        let k = if ksel % 8 == 0 { Kind::R } else { Kind::Q };
                        b.put(tf, br + up * d, k, them);
                    }
                    2 | 3 => {
                        // bishop / queen on a diagonal of the target
                        let k = if ksel % 8 == 2 { Kind::B } else { Kind::Q };
                        let df = if dir % 2 == 0 { 1 } else { -1 };
                        b.put(tf + df * d, br + up * d, k, them);
                    }
                    4 => {
                        let (df, dr) = [(1, 2), (2, 1), (-1, 2), (-2, 1)][dir as usize % 4];
                        b.put(tf + df, br + up * dr, Kind::N, them);
                    }
                    5 => {
                        let df = if dir % 2 == 0 { 1 } else { -1 };
                        b.put(tf + df, br + up, Kind::P, them);
                    }
                    6 => {
                        // rook or queen *on the back rank* (behind the rook / beyond the king)
                        let k = if dir % 2 == 0 { Kind::R } else { Kind::Q };
                        let f = match dir % 4 {
                            0 | 1 => tf,
                            2 => 0,
                            _ => 7,
                        };
                        b.put(f, br, k, them);
                    }
                    _ => {
                        // enemy king next to the path
                        let df = (dir as i32 % 3) - 1;
                        if !b.kings_adjacent_to(tf + df, br + up, us) {
                            b.put(tf + df, br + up, Kind::K, them);
                        }
                    }
                }
            }
            for &(f, ksel, own) in blockers {
                let k = [Kind::N, Kind::B, Kind::Q, Kind::R][ksel as usize % 4];
                b.put(f as i32 % 8, br, k, if own { us } else { them });
            }
        }
        Motif::Ep { black_mover, file, left, right, king_mode, a, b: bb, c } => {
            let us = side_of(*black_mover);
            let them = us.other();
            let f = *file as i32 % 8;
            // victim pawn of `them` on its fourth rank
            let (r4, r3, r2) = if them == Side::W { (3, 2, 1) } else { (4, 5, 6) };
            let _ = (r3, r2);
            b.put(f, r4, Kind::P, them);
            h.stm = Some(us);
            h.ep_file = Some(f as u8);
            let neighbour = |b: &mut Builder, df: i32, sel: u8| {
                let k = match sel % 9 {
                    0 => return,
                    1..=4 => Kind::P,
                    5 => Kind::B,
                    6 => Kind::Q,
                    7 => Kind::N,
                    _ => Kind::K,
                };
                b.put(f + df, r4, k, us);
            };
            neighbour(b, -1, *left);
            neighbour(b, 1, *right);
            let (a, bb, c) = (*a as i32, *bb as i32, *c as i32);
            let fwd_them = them.fwd();
            match king_mode % 9 {
                0 => {}
                7 => {
                    // THEIR king and OUR bishop/queen on a diagonal through the victim: the capture
                    // removes the victim and discovers a check on their king
                    let (df, dr) = [(1, 1), (1, -1), (-1, -1), (-1, 1)][a as usize % 4];
                    let dk = 1 + bb % 4;
                    let ds = 1 + c % 4;
                    b.put(f + df * dk, r4 + dr * dk, Kind::K, them);
                    b.put(f - df * ds, r4 - dr * ds, if a % 8 < 4 { Kind::B } else { Kind::Q }, us);
                }
                8 => {
                    // THEIR king and OUR rook/queen on the victim's rank: capturer and victim both
                    // leave the rank, discovering a check on their king
                    let kside = if a % 2 == 0 { -1 } else { 1 };
                    b.put(f + kside * (2 + bb % 5), r4, Kind::K, them);
                    b.put(f - kside * (2 + c % 5), r4, if a % 4 < 2 { Kind::R } else { Kind::Q }, us);
                }
                1 => {
                    // king on the victim's rank, enemy rook/queen on the other side
                    let kside = if a % 2 == 0 { -1 } else { 1 };
                    let kfile = f + kside * (2 + bb % 5);
                    let sfile = f - kside * (2 + c % 5);
                    b.put(kfile, r4, Kind::K, us);
                    b.put(sfile, r4, if a % 4 < 2 { Kind::R } else { Kind::Q }, them);
                }
                2 => {
                    // king and enemy bishop/queen on a diagonal through the *victim*
                    let (df, dr) = [(1, 1), (1, -1), (-1, -1), (-1, 1)][a as usize % 4];
                    let dk = 1 + bb % 4;
                    let ds = 1 + c % 4;
                    b.put(f + df * dk, r4 + dr * dk, Kind::K, us);
                    b.put(f - df * ds, r4 - dr * ds, if a % 8 < 4 { Kind::B } else { Kind::Q }, them);
                }
                3 => {
                    // king on the capturer's file, enemy rook beyond the capturer
                    let cf = f + if a % 2 == 0 { -1 } else { 1 };
                    let dir = if a % 4 < 2 { 1 } else { -1 };
                    b.put(cf, r4 + dir * (1 + bb % 4), Kind::K, us);
                    b.put(cf, r4 - dir * (1 + c % 4), if a % 8 < 4 { Kind::R } else { Kind::Q }, them);
                }
                4 => {
                    // the victim pawn itself gives check
                    let df = if a % 2 == 0 { -1 } else { 1 };
                    b.put(f + df, r4 + fwd_them, Kind::K, us);
                }
                5 => {
                    // slider checks through the vacated origin square (f, r2)
                    let (df, dr) = DIRS8[a as usize % 8];
                    if (df, dr) != (0, fwd_them) && (df, dr) != (0, -fwd_them) {
                        let dk = 1 + bb % 4;
                        let ds = 1 + c % 3;
                        let diag = df != 0 && dr != 0;
                        b.put(f + df * dk, r2 + dr * dk, Kind::K, us);
                        b.put(f - df * ds, r2 - dr * ds, if diag { if a % 16 < 8 { Kind::B } else { Kind::Q } } else if a % 16 < 8 { Kind::R } else { Kind::Q }, them);
                    }
                }
                _ => {
                    // king and enemy bishop on a diagonal through the *capturer*
                    let cf = f + if a % 2 == 0 { -1 } else { 1 };
                    let (df, dr) = [(1, 1), (1, -1), (-1, -1), (-1, 1)][(a as usize / 2) % 4];
                    let dk = 1 + bb % 4;
                    let ds = 1 + c % 4;
                    b.put(cf + df * dk, r4 + dr * dk, Kind::K, us);
                    b.put(cf - df * ds, r4 - dr * ds, if a % 16 < 8 { Kind::B } else { Kind::Q }, them);
                }
            }
        }
        Motif::Pins { black, ksq, rays, knight, pawn } => {
            let us = side_of(*black);
            let them = us.other();
            let k = *ksq % 64;
            b.put(file_of(k), rank_of(k), Kind::K, us);
            h.stm = Some(us);
            let Some(k) = b.st.king_sq(us) else { return };
            let (kf, kr) = (file_of(k), rank_of(k));
            for (dir, ksel, dist, blockers) in rays {
                let (df, dr) = DIRS8[*dir as usize % 8];
                let diag = df != 0 && dr != 0;
                let kind = match ksel % 6 {
                    0 | 1 => {
                        if diag {
                            Kind::B
                        } else {
                            Kind::R
                        }
                    }
                    2 | 3 => Kind::Q,
                    4 => {
                        // wrong kind for this line: no pin, no check
                        if diag {
                            Kind::R
                        } else {
                            Kind::B
                        }
                    }
                    _ => Kind::N,
                };
                let ds = 1 + *dist as i32 % 7;
                b.put(kf + df * ds, kr + dr * ds, kind, them);
                for &(bd, bk, own) in blockers {
                    let d = 1 + bd as i32 % 6;
                    if d < ds {
                        let kind = PIECE_KINDS[bk as usize % 8];
                        b.put(kf + df * d, kr + dr * d, kind, if own { us } else { them });
                    }
                }
            }
            if let Some(n) = knight {
                let (df, dr) = [(1, 2), (2, 1), (2, -1), (1, -2), (-1, -2), (-2, -1), (-2, 1), (-1, 2)][*n as usize % 8];
                b.put(kf + df, kr + dr, Kind::N, them);
            }
            if let Some(p) = pawn {
                let df = if p % 2 == 0 { -1 } else { 1 };
                // an enemy pawn attacks towards our side: it stands one rank further along our forward direction
                b.put(kf + df, kr + us.fwd(), Kind::P, them);
            }
        }
        Motif::Promo { black, pawns, targets, enemy_kf, enemy_rights } => {
            let us = side_of(*black);
            let them = us.other();
            h.stm = Some(us);
            let r7 = if us == Side::W { 6 } else { 1 };
            let r8 = them.back_rank();
            if *enemy_rights {
                let kf = 1 + *enemy_kf as i32 % 6;
                b.put(kf, r8, Kind::K, them);
            }
            for &(f, ksel) in targets {
                let k = [Kind::R, Kind::N, Kind::B, Kind::Q, Kind::R, Kind::R][ksel as usize % 6];
                b.put(f as i32 % 8, r8, k, them);
            }
            for &f in pawns {
                b.put(f as i32 % 8, r7, Kind::P, us);
            }
        }
        Motif::PromoGlut { black, kind_sel, count, squares, pawn_files, enemy_k } => {
            let us = side_of(*black);
            let them = us.other();
            h.stm = Some(us);
            let r7 = if us == Side::W { 6 } else { 1 };
            let kind = [Kind::N, Kind::B, Kind::R, Kind::Q][*kind_sel as usize % 4];
            for &f in pawn_files.iter().take(3) {
                b.put(f as i32 % 8, r7, Kind::P, us);
            }
            let n = 8 + *count as usize % 5;
            let mut placed = 0usize;
            for &s in squares.iter() {
                if placed >= n {
                    break;
                }
                // keep off the two last ranks of the mover so that the pawns can still promote
                let (f, r) = (file_of(s % 64), 1 + rank_of(s % 64) % 5);
                let r = if us == Side::W { r } else { 7 - r };
                if b.put(f, r, kind, us) {
                    placed += 1;
                }
            }
            let view = Pos { board: b.st.board, stm: us, rights: [[None; 2]; 2], ep: None, hm: 0, fm: 1 };
            let safe: Vec<Sq> = (0..64u8).filter(|&s| b.st.board[s as usize].is_none() && view.attackers(s, us).is_empty()).collect();
            if !safe.is_empty() {
                let s = safe[*enemy_k as usize % safe.len()];
                b.put(file_of(s), rank_of(s), Kind::K, them);
            }
        }
        Motif::PreEp { black, file, dir, dk, ds, queen, capturers } => {
            let us = side_of(*black);
            let them = us.other();
            h.stm = Some(us);
            let f = *file as i32 % 8;
            let (r2, r4) = if us == Side::W { (1, 3) } else { (6, 4) };
            b.put(f, r2, Kind::P, us);
            // line through (f, r2): along the rank or a diagonal
            let (df, dr) = [(1, 0), (-1, 0), (1, 1), (1, -1), (-1, -1), (-1, 1)][*dir as usize % 6];
            let diag = dr != 0;
            let dk = 1 + *dk as i32 % 5;
            let ds = 1 + *ds as i32 % 5;
            b.put(f + df * dk, r2 + dr * dk, Kind::K, them);
            b.put(f - df * ds, r2 - dr * ds, if *queen { Kind::Q } else if diag { Kind::B } else { Kind::R }, us);
            if capturers & 1 != 0 {
                b.put(f - 1, r4, Kind::P, them);
            }
            if capturers & 2 != 0 {
                b.put(f + 1, r4, Kind::P, them);
            }
        }
        Motif::Crowded { black, ep_file, pawn_ranks, pieces, enemy_kf } => {
            let us = side_of(*black);
            let them = us.other();
            h.stm = Some(us);
            let br = us.back_rank();
            let up = us.fwd();
            b.put(4, br, Kind::K, us);
            b.put(*enemy_kf as i32 % 8, them.back_rank(), Kind::K, them);
            h.rights_fixed[us.idx()] = true;
            for (wing, rf) in [(0usize, 7i32), (1usize, 0i32)] {
                if b.put(rf, br, Kind::R, us) {
                    h.rights.push((us, wing, rf as u8));
                }
            }
            // the pawn that "just advanced two squares" and our two capturers beside it
            let f = 1 + *ep_file as i32 % 6;
            let r5 = br + 4 * up;
            b.put(f, r5, Kind::P, them);
            b.put(f - 1, r5, Kind::P, us);
            b.put(f + 1, r5, Kind::P, us);
            h.ep_file = Some(f as u8);
            for file in 0..8i32 {
                if file == f - 1 || file == f + 1 {
                    continue;
                }
                b.put(file, br + up * (1 + pawn_ranks[file as usize] as i32 % 3), Kind::P, us);
            }
            let kinds = [Kind::N, Kind::N, Kind::B, Kind::B, Kind::Q];
            for (i, &(ksel, ssel)) in pieces.iter().enumerate().take(5) {
                let _ = ksel;
                let file = ssel as i32 % 8;
                let rank = br + up * (1 + (ssel as i32 / 8) % 4);
                b.put(file, rank, kinds[i], us);
            }
        }
        Motif::Battery { black, ksq, dir, dist, blocker_dist, slider_queen, blocker_kind, corner, boxed } => {
            let us = side_of(*black);
            let them = us.other();
            h.stm = Some(us);
            // enemy king in a corner, boxed in by its own pawns / pieces
            let (cf, cr) = [(0, 0), (7, 0), (0, 7), (7, 7)][*corner as usize % 4];
            b.put(cf, cr, Kind::K, them);
            let inward_f = if cf == 0 { 1 } else { -1 };
            let inward_r = if cr == 0 { 1 } else { -1 };
            let pawn_ok = |r: i32| r != 0 && r != 7;
            for (i, (df, dr)) in [(inward_f, 0), (0, inward_r), (inward_f, inward_r)].into_iter().enumerate() {
                if boxed & (1 << i) != 0 {
                    let (f, r) = (cf + df, cr + dr);
                    // a pawn that cannot move (blocked later by extras or not) or a knight/bishop
                    let kind = if pawn_ok(r) && (them.fwd() == -inward_r) { Kind::P } else { [Kind::N, Kind::B, Kind::R][i % 3] };
                    b.put(f, r, kind, them);
                }
            }
            let k = *ksq % 64;
            b.put(file_of(k), rank_of(k), Kind::K, us);
            let Some(k) = b.st.king_sq(us) else { return };
            let (kf, kr) = (file_of(k), rank_of(k));
            let (df, dr) = DIRS8[*dir as usize % 8];
            let diag = df != 0 && dr != 0;
            let ds = 2 + *dist as i32 % 6;
            let bd = 1 + *blocker_dist as i32 % (ds - 1).max(1);
            b.put(kf + df * ds, kr + dr * ds, if *slider_queen { Kind::Q } else if diag { Kind::B } else { Kind::R }, them);
            let bk = [Kind::N, Kind::B, Kind::R, Kind::P, Kind::Q, Kind::N][*blocker_kind as usize % 6];
            b.put(kf + df * bd, kr + dr * bd, bk, them);
        }
        Motif::BatteryStalemate { black, right_corner, d, kf, p3_right, blocker_kind } => {
            let us = side_of(*black);
            let them = us.other();
            h.stm = Some(us);
            let r0 = them.back_rank();
            let u = -us.fwd(); // from their back rank towards the middle of the board
            let (cf, step) = if *right_corner { (7, -1) } else { (0, 1) };
            b.put(cf, r0, Kind::B, them);
            let bk = [Kind::N, Kind::N, Kind::R, Kind::N][*blocker_kind as usize % 4];
            b.put(cf + step, r0 + u, bk, them);
            let d = 3 + *d as i32 % 5;
            b.put(cf + step * d, r0 + u * d, Kind::K, us);
            // their king away from the corner, boxed in by our pawns
            let kf = if *right_corner { 2 + *kf as i32 % 2 } else { 4 + *kf as i32 % 2 };
            b.put(kf, r0, Kind::K, them);
            b.put(kf, r0 + u, Kind::P, us);
            b.put(kf, r0 + 2 * u, Kind::P, us);
            b.put(kf + if *p3_right { 1 } else { -1 }, r0 + 2 * u, Kind::P, us);
        }
        Motif::EpStalemate { black, file, capturer_right, dir, dk, ds, with_slider, queen } => {
            let us = side_of(*black);
            let them = us.other();
            h.stm = Some(us);
            let f = 1 + *file as i32 % 6;
            let (r4, r3) = if them == Side::W { (3, 2) } else { (4, 5) };
            let fwd = us.fwd();
            b.put(f, r4, Kind::P, them);
            h.ep_file = Some(f as u8);
            let cf = f + if *capturer_right { 1 } else { -1 };
            b.put(cf, r4, Kind::P, us);
            // block the capturer's push
            b.put(cf, r4 + fwd, Kind::P, them);
            // our king on a diagonal through the victim, their slider on the other side
            let (df, dr) = [(1, 1), (1, -1), (-1, -1), (-1, 1)][*dir as usize % 4];
            let dk = 1 + *dk as i32 % 4;
            let ds = 1 + *ds as i32 % 4;
            b.put(f + df * dk, r4 + dr * dk, Kind::K, us);
            if *with_slider {
                b.put(f - df * ds, r4 - dr * ds, if *queen { Kind::Q } else { Kind::B }, them);
            }
            let Some(k) = b.st.king_sq(us) else { return };
            // their king far away from ours
            let far = if rank_of(k) < 4 { 7 } else { 0 };
            for tf in [0, 7, 3, 4] {
                if b.put(tf, far, Kind::K, them) {
                    break;
                }
            }
            // cover every flight square of our king without giving check and without touching
            // the squares the en-passant capture depends on
            let reserved: Vec<Sq> = vec![sq(f, r4), sq(f, r3), sq(cf, r4), sq(cf, r4 + fwd)];
            let view = |st: &RawState| Pos { board: st.board, stm: us, rights: [[None; 2]; 2], ep: None, hm: 0, fm: 1 };
            for (ddf, ddr) in DIRS8 {
                let (nf, nr) = (file_of(k) + ddf, rank_of(k) + ddr);
                if !on_board(nf, nr) {
                    continue;
                }
                let target = sq(nf, nr);
                let p = view(&b.st);
                if matches!(p.board[target as usize], Some((_, c)) if c == us) || p.attacked(target, them) {
                    continue;
                }
                'search: for kind in [Kind::R, Kind::N, Kind::B, Kind::P] {
                    for cand in 0..64u8 {
                        let c = (cand as usize * 37 + *dir as usize * 11) as u8 % 64; // deterministic spread
                        if b.st.board[c as usize].is_some() || reserved.contains(&c) || c == target {
                            continue;
                        }
                        if kind == Kind::P && (rank_of(c) == 0 || rank_of(c) == 7) {
                            continue;
                        }
                        let mut trial = b.st.clone();
                        trial.board[c as usize] = Some((kind, them));
                        let tp = view(&trial);
                        // must cover the flight square, must not check our king, must not disturb the EP line
                        let mut lifted = tp.clone();
                        lifted.board[k as usize] = None;
                        if lifted.attacked(target, them) && !tp.attacked(k, them) {
                            if b.put(file_of(c), rank_of(c), kind, them) {
                                break 'search;
                            }
                        }
                    }
                }
            }
        }
        Motif::CastleOnly { black, long, cover_queen, cover_dist, drop } => {
            let us = side_of(*black);
            let them = us.other();
            h.stm = Some(us);
            h.rights_fixed[us.idx()] = true;
            let br = us.back_rank();
            let up = us.fwd();
            // short: K f, R g, B h, pawn g2, enemy pawn g3, enemy rook/queen on the e-file
            // long : K d, R c, B b, pawns a2 c2, enemy pawns a3 c3, enemy rook/queen on the e-file
            let (kf, rf, bf, cover_file) = if *long { (3, 2, 1, 4) } else { (5, 6, 7, 4) };
            b.put(kf, br, Kind::K, us);
            if b.put(rf, br, Kind::R, us) {
                h.rights.push((us, if *long { 1 } else { 0 }, rf as u8));
            }
            if *drop != 1 {
                b.put(bf, br, Kind::B, us);
            }
            b.put(rf, br + up, Kind::P, us);
            if *drop != 2 {
                b.put(rf, br + 2 * up, Kind::P, them);
            }
            if *long {
                b.put(0, br + up, Kind::P, us);
                b.put(0, br + 2 * up, Kind::P, them);
            }
            if *drop != 3 {
                b.put(cover_file, br + up * (4 + *cover_dist as i32 % 4), if *cover_queen { Kind::Q } else { Kind::R }, them);
            }
            // their king far away, off the e-file
            b.put(if *long { 7 } else { 0 }, them.back_rank(), Kind::K, them);
        }
        Motif::CastleMate { black, long, variant } => {
            let us = side_of(*black);
            let them = us.other();
            h.stm = Some(us);
            h.rights_fixed[us.idx()] = true;
            let br = us.back_rank();
            let far = them.back_rank();
            let down = them.fwd(); // from their back rank towards the middle
            let (rf, file) = if *long { (0, 3) } else { (7, 5) }; // rook start, file it lands on
            b.put(4, br, Kind::K, us);
            if b.put(rf, br, Kind::R, us) {
                h.rights.push((us, if *long { 1 } else { 0 }, rf as u8));
            }
            b.put(file, far, Kind::K, them);
            b.put(file - 1, far, if *variant == 1 { Kind::N } else { Kind::R }, them);
            b.put(file + 1, far, Kind::R, them);
            b.put(file - 1, far + down, Kind::P, them);
            if *variant != 2 {
                b.put(file + 1, far + down, Kind::P, them);
            }
            if *variant == 3 {
                b.put(file, far + 3 * down, Kind::N, them);
            }
        }
        Motif::Dense { phases, kinds, drop, rich } => {
            h.no_extras = true;
            let mut slot = 0usize;
            let mut pawns = [0u8; 2];
            let mut phases = *phases;
            let mut king_slot = [kinds[0] as usize % 4, 28 + kinds[1] as usize % 4];
            let mut dropped = [(*drop as usize % 3 > 0).then_some(4 + kinds[2] as usize % 12), (*drop as usize % 3 > 1).then_some(16 + kinds[3] as usize % 12)];
            let mut forced: Vec<(i32, i32, Kind, Side)> = Vec::new();
            if *rich {
                let f = kinds[4] as i32 % 8;
                let q = (f % 2) as u8;
                // ranks 1 and 8 on files a, c, e, g; the en-passant file occupied on the fourth
                // rank and empty on the second and third
                phases &= !0b1000_1111;
                phases |= q << 3 | (1 - q) << 2 | (1 - q) << 1;
                king_slot = [1, 29];
                dropped = [None, None];
                for (side, r) in [(Side::W, 0), (Side::B, 7)] {
                    forced.push((0, r, Kind::R, side));
                    forced.push((4, r, Kind::R, side));
                    h.rights.push((side, 1, 0));
                    h.rights.push((side, 0, 4));
                    h.rights_fixed[side.idx()] = true;
                }
                forced.push((f, 3, Kind::P, Side::W));
                h.stm = Some(Side::B);
                h.ep_file = Some(f as u8);
            }
            for r in 0..8i32 {
                let side = if r < 4 { Side::W } else { Side::B };
                for f in 0..8i32 {
                    if (f + ((phases >> r) & 1) as i32) % 2 != 0 {
                        continue;
                    }
                    let i = slot;
                    slot += 1;
                    if i == king_slot[side.idx()] {
                        b.put(f, r, Kind::K, side);
                        continue;
                    }
                    if dropped.contains(&Some(i)) {
                        continue;
                    }
                    if let Some(&(_, _, k, s)) = forced.iter().find(|x| x.0 == f && x.1 == r) {
                        b.put(f, r, k, s);
                        if k == Kind::P {
                            pawns[s.idx()] += 1;
                        }
                        continue;
                    }
                    let mut kind = [Kind::P, Kind::P, Kind::N, Kind::B, Kind::R, Kind::Q][kinds[i] as usize % 6];
                    if kind == Kind::P && (r == 0 || r == 7 || pawns[side.idx()] >= 7) {
                        kind = Kind::N;
                    }
                    if kind == Kind::P {
                        pawns[side.idx()] += 1;
                    }
                    b.put(f, r, kind, side);
                }
            }
        }
        Motif::SliderSwarm { black, corner, file_n, rank_n, diag_n, diag_queen_far } => {
            let us = side_of(*black);
            let them = us.other();
            h.stm = Some(us);
            let (cf, cr) = [(0, 0), (7, 0), (0, 7), (7, 7)][*corner as usize % 4];
            let (df, dr) = (if cf == 0 { 1 } else { -1 }, if cr == 0 { 1 } else { -1 });
            b.put(cf, cr, Kind::K, them);
            // knights closing the three lines
            b.put(cf, cr + dr, Kind::N, us);
            b.put(cf + df, cr, Kind::N, us);
            b.put(cf + df, cr + dr, Kind::N, us);
            // sliders behind them (at most twelve in all, so that the side keeps to 16 men)
            let (fnn, rnn, dnn) = (1 + *file_n as i32 % 5, 1 + *rank_n as i32 % 5, 1 + *diag_n as i32 % 3);
            for i in 0..fnn {
                b.put(cf, cr + dr * (2 + i), Kind::R, us);
            }
            for i in 0..rnn {
                b.put(cf + df * (2 + i), cr, Kind::R, us);
            }
            for i in 0..dnn {
                let d = if *diag_queen_far && i == dnn - 1 { 7 } else { 2 + i };
                b.put(cf + df * d, cr + dr * d, if i % 2 == 0 { Kind::Q } else { Kind::B }, us);
            }
            // our king somewhere harmless
            b.put(cf + df * 5, cr + dr * 3, Kind::K, us);
        }
        Motif::Net { black, ksq, pieces, enemy_k } => {
            let us = side_of(*black);
            let them = us.other();
            h.stm = Some(us);
            // squash the king towards an edge / corner
            let k = *ksq % 64;
            let (mut f, mut r) = (file_of(k), rank_of(k));
            if ksq & 64 == 0 {
                f = if f < 4 { 0 } else { 7 };
            }
            if ksq & 128 == 0 {
                r = if r < 4 { 0 } else { 7 };
            }
            b.put(f, r, Kind::K, us);
            let (ef, er) = (f + enemy_k.0 as i32, r + enemy_k.1 as i32);
            if !b.kings_adjacent_to(ef, er, us) {
                b.put(ef, er, Kind::K, them);
            }
            for &(ksel, df, dr) in pieces {
                let kind = [Kind::Q, Kind::R, Kind::B, Kind::N, Kind::P, Kind::Q, Kind::R, Kind::P][ksel as usize % 8];
                // a few own blockers make stalemates and smothered mates possible
                let side = if ksel >= 200 { us } else { them };
                b.put(f + df as i32, r + dr as i32, kind, side);
            }
        }
    }
}

const HM_POINTS: [u8; 8] = [0, 1, 49, 50, 98, 99, 100, 0];
const FM_POINTS: [u16; 6] = [1, 2, 65534, 65535, 1, 40];

/// Build a raw builder state from ingredients, by construction aiming at states the library
/// accepts (no rejection loop).
pub fn assemble(ing: &Ingredients) -> RawState {
    let mut b = Builder { st: RawState::empty() };
    let mut h = Hints::default();
    apply_motif(&mut b, &ing.motif, &mut h);
    b.put_king(ing.wk % 64, Side::W);
    b.put_king(ing.bk % 64, Side::B);
    for &(ksel, black, s) in ing.extras.iter().filter(|_| !h.no_extras) {
        let kind = EXTRA_KINDS[ksel as usize % 16];
        let s = s % 64;
        b.put(file_of(s), rank_of(s), kind, side_of(black));
    }
    let mut st = b.st;
    st.stm = h.stm.unwrap_or(side_of(ing.stm_black));

    // The side not to move must not be in check: flip the turn if that helps and the motif
    // does not insist, otherwise remove attackers of that king.
    let view = |st: &RawState| Pos { board: st.board, stm: st.stm, rights: [[None; 2]; 2], ep: None, hm: 0, fm: 1 };
    {
        let p = view(&st);
        let waiting = st.stm.other();
        if p.in_check(waiting) {
            if h.stm.is_none() && !p.in_check(st.stm) {
                st.stm = waiting;
            } else {
                let k = st.king_sq(waiting).unwrap();
                for a in p.attackers(k, st.stm) {
                    if !matches!(st.board[a as usize], Some((Kind::K, _))) {
                        st.board[a as usize] = None;
                    }
                }
            }
        }
    }
    if !ing.keep_multi {
        let p = view(&st);
        let k = st.king_sq(st.stm).unwrap();
        let att = p.attackers(k, st.stm.other());
        for &a in att.iter().skip(2) {
            st.board[a as usize] = None;
        }
    }

    // Castling rights: forced ones from the motif, otherwise a subset of what the placement supports.
    for &(side, wing, rf) in &h.rights {
        if st.board[sq(rf as i32, side.back_rank()) as usize] == Some((Kind::R, side)) {
            st.rights[side.idx()][wing] = Some(rf);
        }
    }
    for side in [Side::W, Side::B] {
        if h.rights_fixed[side.idx()] {
            continue;
        }
        let Some(k) = st.king_sq(side) else { continue };
        if rank_of(k) != side.back_rank() {
            continue;
        }
        for wing in 0..2 {
            let sel = ing.rights_sel[side.idx() * 2 + wing];
            let rooks: Vec<u8> = (0..8u8)
                .filter(|&f| st.board[sq(f as i32, side.back_rank()) as usize] == Some((Kind::R, side)))
                .filter(|&f| if wing == 0 { (f as i32) > file_of(k) } else { (f as i32) < file_of(k) })
                .collect();
            // selector 0..=2 of 8: no right; otherwise one of the candidate rooks
            if !rooks.is_empty() && sel % 8 > 2 {
                st.rights[side.idx()][wing] = Some(rooks[(sel as usize / 8) % rooks.len()]);
            }
        }
    }

    // En passant: the motif's file if structurally possible, else drawn from the possible files.
    let them = st.stm.other();
    let (r4, r3, r2) = if them == Side::W { (3, 2, 1) } else { (4, 5, 6) };
    let possible: Vec<u8> = (0..8u8)
        .filter(|&f| {
            st.board[sq(f as i32, r4) as usize] == Some((Kind::P, them))
                && st.board[sq(f as i32, r3) as usize].is_none()
                && st.board[sq(f as i32, r2) as usize].is_none()
        })
        .collect();
    let ep_file = match h.ep_file {
        Some(f) if possible.contains(&f) && ing.ep_sel % 8 != 0 => Some(f),
        Some(_) => None,
        None => {
            if !possible.is_empty() && ing.ep_sel % 4 == 1 {
                Some(possible[(ing.ep_sel as usize / 4) % possible.len()])
            } else {
                None
            }
        }
    };
    st.ep = ep_file.map(|f| sq(f as i32, r3));

    st.hm = if ing.hm_sel % 3 == 0 { ing.hm_raw % 101 } else { HM_POINTS[ing.hm_sel as usize % 8] };
    st.fm = if ing.fm_sel % 3 == 0 { ing.fm_raw.max(1) } else { FM_POINTS[ing.fm_sel as usize % 6] };
    st
}

fn arb_motif() -> impl Strategy<Value = Motif> {
    prop_oneof![
        3 => Just(Motif::None),
        3 => (any::<bool>(), 0u8..8, any::<u8>(), any::<u8>(), vec((any::<u8>(), 0u8..8, 0u8..7, any::<u8>()), 0..4), vec((0u8..8, any::<u8>(), any::<bool>()), 0..3))
            .prop_map(|(black, kf, short_sel, long_sel, attackers, blockers)| Motif::Castle { black, kf, short_sel, long_sel, attackers, blockers }),
        3 => (any::<bool>(), 0u8..8, 0u8..9, 0u8..9, 0u8..9, any::<u8>(), any::<u8>(), any::<u8>())
            .prop_map(|(black_mover, file, left, right, king_mode, a, b, c)| Motif::Ep { black_mover, file, left, right, king_mode, a, b, c }),
        3 => (any::<bool>(), 0u8..64, vec((0u8..8, 0u8..6, 0u8..7, vec((0u8..6, 0u8..8, any::<bool>()), 0..3)), 1..5), proptest::option::weighted(0.3, 0u8..8), proptest::option::weighted(0.25, 0u8..2))
            .prop_map(|(black, ksq, rays, knight, pawn)| Motif::Pins { black, ksq, rays, knight, pawn }),
        2 => (any::<bool>(), vec(0u8..8, 1..4), vec((0u8..8, 0u8..6), 0..4), 0u8..6, any::<bool>())
            .prop_map(|(black, pawns, targets, enemy_kf, enemy_rights)| Motif::Promo { black, pawns, targets, enemy_kf, enemy_rights }),
        2 => (any::<bool>(), any::<u8>(), vec((any::<u8>(), -3i8..4, -3i8..4), 1..5), (-3i8..4, -3i8..4))
            .prop_map(|(black, ksq, pieces, enemy_k)| Motif::Net { black, ksq, pieces, enemy_k }),
        1 => (any::<bool>(), 0u8..8, 0u8..6, 0u8..5, 0u8..5, any::<bool>(), 0u8..4)
            .prop_map(|(black, file, dir, dk, ds, queen, capturers)| Motif::PreEp { black, file, dir, dk, ds, queen, capturers }),
        1 => (any::<bool>(), 0u8..64, 0u8..8, 0u8..6, 0u8..6, any::<bool>(), 0u8..6, 0u8..4, 0u8..8)
            .prop_map(|(black, ksq, dir, dist, blocker_dist, slider_queen, blocker_kind, corner, boxed)| Motif::Battery { black, ksq, dir, dist, blocker_dist, slider_queen, blocker_kind, corner, boxed }),
        1 => (any::<bool>(), 0u8..6, any::<bool>(), 0u8..4, 0u8..4, 0u8..4, proptest::bool::weighted(0.75), any::<bool>())
            .prop_map(|(black, file, capturer_right, dir, dk, ds, with_slider, queen)| Motif::EpStalemate { black, file, capturer_right, dir, dk, ds, with_slider, queen }),
        1 => (any::<bool>(), any::<bool>(), any::<bool>(), 0u8..4, prop_oneof![3 => Just(0u8), 1 => 1u8..4])
            .prop_map(|(black, long, cover_queen, cover_dist, drop)| Motif::CastleOnly { black, long, cover_queen, cover_dist, drop }),
        1 => (any::<bool>(), any::<bool>(), prop_oneof![2 => Just(0u8), 1 => 1u8..4])
            .prop_map(|(black, long, variant)| Motif::CastleMate { black, long, variant }),
        1 => (any::<bool>(), 0u8..4, 0u8..5, any::<[u8; 12]>(), vec(0u8..8, 1..4), any::<u8>())
            .prop_map(|(black, kind_sel, count, squares, pawn_files, enemy_k)| Motif::PromoGlut { black, kind_sel, count, squares, pawn_files, enemy_k }),
        1 => (any::<u8>(), any::<[u8; 32]>(), prop_oneof![3 => Just(0u8), 1 => 1u8..3], any::<bool>())
            .prop_map(|(phases, kinds, drop, rich)| Motif::Dense { phases, kinds, drop, rich }),
        1 => (any::<bool>(), 0u8..4, 0u8..5, 0u8..5, 0u8..3, any::<bool>())
            .prop_map(|(black, corner, file_n, rank_n, diag_n, diag_queen_far)| Motif::SliderSwarm { black, corner, file_n, rank_n, diag_n, diag_queen_far }),
        1 => (any::<bool>(), any::<bool>(), 0u8..5, 0u8..2, any::<bool>(), 0u8..4)
            .prop_map(|(black, right_corner, d, kf, p3_right, blocker_kind)| Motif::BatteryStalemate { black, right_corner, d, kf, p3_right, blocker_kind }),
        1 => (any::<bool>(), 0u8..6, any::<[u8; 8]>(), vec((any::<u8>(), 0u8..32), 5), 0u8..8)
            .prop_map(|(black, ep_file, pawn_ranks, pieces, enemy_kf)| Motif::Crowded { black, ep_file, pawn_ranks, pieces, enemy_kf }),
    ]
}

fn arb_extras() -> impl Strategy<Value = Vec<(u8, bool, u8)>> {
    let item = (0u8..16, any::<bool>(), 0u8..64);
    prop_oneof![
        3 => vec(item.clone(), 0..4),
        3 => vec(item.clone(), 0..10),
        2 => vec(item.clone(), 5..20),
        1 => vec(item, 15..31),
    ]
}

pub fn arb_ingredients() -> impl Strategy<Value = Ingredients> {
    (
        arb_motif(),
        0u8..64,
        0u8..64,
        arb_extras(),
        any::<bool>(),
        any::<[u8; 4]>(),
        any::<u8>(),
        (any::<u8>(), any::<u8>(), any::<u8>(), any::<u16>()),
        proptest::bool::weighted(0.05),
    )
        .prop_map(|(motif, wk, bk, extras, stm_black, rights_sel, ep_sel, (hm_sel, hm_raw, fm_sel, fm_raw), keep_multi)| Ingredients {
            motif,
            wk,
            bk,
            extras,
            stm_black,
            rights_sel,
            ep_sel,
            hm_sel,
            hm_raw,
            fm_sel,
            fm_raw,
            keep_multi,
        })
}

// ------------------------------------------------------------------------------------------
// Start positions and histories

#[derive(Clone, Debug)]
pub enum Start {
    /// Board::double_chess960_startpos(w, b)
    Dfrc(u32, u32),
    /// Line of the seed file (taken from the repository's valid.sfens), parsed as Shredder-FEN
    Seed(usize),
    /// Constructed through the builder
    Built(Box<Ingredients>),
    /// A constructed state with 1..3 edits towards (or over) the edge of validity; used when the
    /// library accepts it. On a correct library these are ordinary valid boards; under a
    /// weakened validator they are the boards that should not exist.
    Edited(Box<crate::gen2::EditedState>),
}

#[derive(Clone, Debug)]
pub enum Op {
    Move { sel: u16, bias: u8 },
    Null,
    SetHm(u8),
    SetFm(u16),
}

#[derive(Clone, Debug)]
pub struct PosCase {
    pub start: Start,
    pub ops: Vec<Op>,
}

pub fn arb_start(w_dfrc: u32, w_seed: u32, w_built: u32) -> impl Strategy<Value = Start> {
    let n = seed_fens().len();
    prop_oneof![
        w_dfrc => prop_oneof![
            (0u32..960).prop_map(|a| Start::Dfrc(a, a)),
            (0u32..960, 0u32..960).prop_map(|(a, b)| Start::Dfrc(a, b)),
        ],
        w_seed => (0..n).prop_map(Start::Seed),
        w_built => arb_ingredients().prop_map(|i| Start::Built(Box::new(i))),
        (w_built / 3).max(1) => crate::gen2::arb_edited_state().prop_map(|e| Start::Edited(Box::new(e))),
    ]
}

pub fn arb_op() -> impl Strategy<Value = Op> {
    prop_oneof![
        30 => (any::<u16>(), 0u8..16).prop_map(|(sel, bias)| Op::Move { sel, bias }),
        4 => Just(Op::Null),
        1 => prop_oneof![Just(0u8), Just(1), Just(49), Just(98), Just(99), Just(100), 0u8..=100].prop_map(Op::SetHm),
        1 => prop_oneof![Just(1u16), Just(2), Just(65534), Just(65535), 1u16..=65535].prop_map(Op::SetFm),
    ]
}

pub fn arb_case(w_dfrc: u32, w_seed: u32, w_built: u32, max_ops: usize) -> impl Strategy<Value = PosCase> {
    (arb_start(w_dfrc, w_seed, w_built), prop_oneof![2 => vec(arb_op(), 0..8), 2 => vec(arb_op(), 0..(max_ops / 3).max(9)), 1 => vec(arb_op(), 0..max_ops.max(10))])
        .prop_map(|(start, mut ops)| {
            if let Start::Built(ing) = &start {
                if matches!(ing.motif, Motif::PreEp { .. }) {
                    // play a double push first (selector taken from the generated data so it shrinks with it)
                    let sel = ing.fm_raw.wrapping_mul(40503);
                    ops.insert(0, Op::Move { sel, bias: 5 });
                }
                if let Motif::Ep { king_mode, .. } = &ing.motif {
                    // capture en passant first when that is what the motif is about (always for the
                    // discovered-check modes, half of the time otherwise)
                    if king_mode % 9 >= 7 || ing.ep_sel & 16 != 0 {
                        ops.insert(0, Op::Move { sel: ing.fm_raw.wrapping_mul(40503), bias: 4 });
                    }
                }
                if matches!(ing.motif, Motif::Battery { .. } | Motif::BatteryStalemate { .. }) {
                    ops.insert(0, Op::Null);
                }
                if matches!(ing.motif, Motif::CastleMate { .. }) && ing.ep_sel & 1 == 0 {
                    ops.insert(0, Op::Move { sel: ing.fm_raw.wrapping_mul(40503), bias: 2 });
                }
            }
            PosCase { start, ops }
        })
}

/// Start board as the library hands it out, plus a textual description for replay files.
/// None = the library rejected the constructed state.
pub fn start_board(start: &Start) -> Option<(Board, String)> {
    match start {
        Start::Dfrc(w, b) => {
            let board = Board::double_chess960_startpos(*w, *b);
            let text = format!("{:#}", board);
            Some((board, text))
        }
        Start::Seed(i) => {
            let fens = seed_fens();
            let fen = fens[*i % fens.len()];
            Board::from_fen(fen, true).ok().map(|b| (b, fen.to_string()))
        }
        Start::Built(ing) => {
            let st = crate::runner::guard("assemble", || assemble(ing))?;
            build(&st).map(|b| {
                let t = format!("{:#}", b);
                (b, t)
            })
        }
        Start::Edited(es) => {
            let st = es.state();
            // the raw state is kept as the origin: the board's own text may not re-enter
            build(&st).map(|b| (b, format!("bstate:{}", st.text())))
        }
    }
}

#[derive(Clone, Debug, PartialEq, Eq)]
pub enum Step {
    Start,
    Move(RMove),
    Null,
    NullRefused,
    Clock,
}

impl Step {
    pub fn text(&self) -> String {
        match self {
            Step::Start => "start".into(),
            Step::Move(m) => m.text(),
            Step::Null => "null".into(),
            Step::NullRefused => "null-refused".into(),
            Step::Clock => "clock".into(),
        }
    }
}

/// Pick a move among the reference legal moves; `bias` prefers a class when available.
pub fn pick_move(p: &Pos, legal: &[RMove], sel: u16, bias: u8) -> Option<RMove> {
    if legal.is_empty() {
        return None;
    }
    let us = p.stm;
    let class: Vec<RMove> = match bias {
        0 => legal.iter().copied().filter(|m| p.board[m.to as usize].is_some() && !p.is_castle(*m)).collect(),
        1 => legal.iter().copied().filter(|m| p.make(*m).in_check(us.other())).collect(),
        2 => legal.iter().copied().filter(|m| p.is_castle(*m)).collect(),
        3 => legal.iter().copied().filter(|m| m.promo.is_some()).collect(),
        4 => legal.iter().copied().filter(|m| p.is_ep_capture(*m)).collect(),
        5 => legal
            .iter()
            .copied()
            .filter(|m| matches!(p.board[m.from as usize], Some((Kind::P, _))) && (rank_of(m.to) - rank_of(m.from)).abs() == 2)
            .collect(),
        6 => legal.iter().copied().filter(|m| matches!(p.board[m.from as usize], Some((Kind::K, _)))).collect(),
        7 => legal
            .iter()
            .copied()
            .filter(|m| {
                matches!(p.board[m.from as usize], Some((Kind::R, _)))
                    && rank_of(m.from) == us.back_rank()
                    && p.rights[us.idx()].contains(&Some(file_of(m.from) as u8))
            })
            .collect(),
        _ => Vec::new(),
    };
    let pool: &[RMove] = if class.is_empty() { legal } else { &class };
    Some(pool[(sel as usize * pool.len()) >> 16])
}

/// Apply `ops` to the start board, calling `visit(board, step_index, step)` on the start board
/// and after every op. The board is advanced with `play_unchecked` on moves chosen from the
/// *reference* legal moves of the position the library's accessors report, and with
/// `null_move`. Returns the textual history (for replay files).
///
/// `visit` returning Err stops the walk.
pub fn walk<E>(start: Board, ops: &[Op], mut visit: impl FnMut(&Board, &Pos, &Step, &[String]) -> Result<(), E>) -> Result<(), E> {
    let mut board = start;
    let mut hist: Vec<String> = Vec::new();
    let mut pos = pos_of_board(&board);
    visit(&board, &pos, &Step::Start, &hist)?;
    for op in ops {
        if pos.king_sq(Side::W).is_none() || pos.king_sq(Side::B).is_none() {
            break;
        }
        let step = match op {
            Op::Move { sel, bias } => {
                let legal = pos.legal_moves();
                match pick_move(&pos, &legal, *sel, *bias) {
                    None => break,
                    Some(m) => {
                        board.play_unchecked(lmove(m));
                        Step::Move(m)
                    }
                }
            }
            Op::Null => match board.null_move() {
                Some(n) => {
                    board = n;
                    Step::Null
                }
                None => Step::NullRefused,
            },
            Op::SetHm(n) => {
                board.set_halfmove_clock(*n);
                Step::Clock
            }
            Op::SetFm(n) => {
                board.set_fullmove_number(*n);
                Step::Clock
            }
        };
        match (&step, op) {
            (Step::Clock, Op::SetHm(n)) => hist.push(format!("hm:{}", n)),
            (Step::Clock, Op::SetFm(n)) => hist.push(format!("fm:{}", n)),
            _ => hist.push(step.text()),
        }
        pos = pos_of_board(&board);
        visit(&board, &pos, &step, &hist)?;
    }
    Ok(())
}

/// Re-run a textual history (`e2e4,null,hm:99,...`) from a board. Used by replay.
pub fn replay_history(start: Board, hist: &str, mut visit: impl FnMut(&Board, &Pos, &Step, &[String]) -> Result<(), crate::runner::Failure>) -> Result<(), crate::runner::Failure> {
    let mut board = start;
    let mut done: Vec<String> = Vec::new();
    let pos = pos_of_board(&board);
    visit(&board, &pos, &Step::Start, &done)?;
    for tok in hist.split(',').filter(|t| !t.is_empty()) {
        let step = if tok == "null" {
            match board.null_move() {
                Some(n) => {
                    board = n;
                    Step::Null
                }
                None => Step::NullRefused,
            }
        } else if tok == "null-refused" {
            Step::NullRefused
        } else if let Some(n) = tok.strip_prefix("hm:") {
            board.set_halfmove_clock(n.parse().unwrap_or(0));
            Step::Clock
        } else if let Some(n) = tok.strip_prefix("fm:") {
            board.set_fullmove_number(n.parse().unwrap_or(1));
            Step::Clock
        } else {
            let m = RMove::parse(tok).ok_or_else(|| crate::runner::Failure::new("bad-replay", format!("bad move token {}", tok)))?;
            board.play_unchecked(lmove(m));
            Step::Move(m)
        };
        done.push(tok.to_string());
        let pos = pos_of_board(&board);
        visit(&board, &pos, &step, &done)?;
    }
    Ok(())
}

/// Board from a replay "start" description: a Shredder/plain FEN, or `bstate:<RawState text>`.
pub fn board_from_text(text: &str) -> Option<Board> {
    if let Some(raw) = text.strip_prefix("bstate:") {
        return build(&RawState::parse(raw)?);
    }
    Board::from_fen(text, true).ok().or_else(|| Board::from_fen(text, false).ok()).or_else(|| {
        // Boards only the builder accepts are stored with their accessor view.
        let p = pos_from_fen(text)?;
        build(&RawState::from_pos(&p))
    })
}

// ------------------------------------------------------------------------------------------
// Position classes shared by several properties

/// EP file set while the mover is in check: by the pawn that just advanced, or by a slider
/// whose line the advance opened.
pub fn ep_check_classes(p: &Pos, st: &mut crate::runner::Stats) {
    if let Some(f) = p.ep {
        let ch = p.checkers_mask();
        if ch != 0 {
            let r4 = if p.stm == Side::W { 4 } else { 3 };
            let pawn = 1u64 << sq(f as i32, r4);
            st.class_if(ch & pawn != 0, "ep-set:check-by-pushed-pawn");
            st.class_if(ch & !pawn != 0, "ep-set:discovered-slider-check");
        }
    }
}

pub fn classify(p: &Pos, st: &mut crate::runner::Stats, legal: &[RMove]) {
    let checkers = p.checkers_mask().count_ones();
    st.class(match checkers {
        0 => "checkers=0",
        1 => "checkers=1",
        2 => "checkers=2",
        _ => "checkers>=3",
    });
    let pinned = p.pinned_mask();
    let own: u64 = (0..64).filter(|&s| matches!(p.board[s], Some((_, c)) if c == p.stm)).fold(0, |m, s| m | 1u64 << s);
    st.class_if(pinned & own != 0, "own-piece-pinned");
    st.class_if(pinned & !own != 0, "enemy-piece-on-pin-line");
    st.class_if(p.ep.is_some(), "ep-file-set");
    ep_check_classes(p, st);
    if p.ep.is_some() {
        let pseudo_ep = p.pseudo_moves().iter().any(|m| p.is_ep_capture(*m));
        let legal_ep = legal.iter().any(|m| p.is_ep_capture(*m));
        st.class_if(pseudo_ep && !legal_ep, "ep-capture-pseudo-but-illegal");
        st.class_if(legal_ep, "ep-capture-legal");
    }
    let r = p.rights[p.stm.idx()];
    if r[0].is_some() || r[1].is_some() {
        st.class("castle-right-present");
        let k = p.king_sq(p.stm).unwrap();
        for wing in 0..2 {
            if let Some(rf) = r[wing] {
                match p.castle_obstacle(wing) {
                    None => {
                        st.class("castle-legal");
                        let (kd, rd) = if wing == 0 { (6, 5) } else { (2, 3) };
                        st.class_if(file_of(k) == kd, "castle-king-does-not-move");
                        st.class_if(rf as i32 == rd, "castle-rook-does-not-move");
                    }
                    Some("blocked") => st.class("castle-refused-blocked"),
                    Some("in-check") => st.class("castle-refused-in-check"),
                    Some("through-attack") => st.class("castle-refused-through-attack"),
                    Some("into-attack") => st.class("castle-refused-rook-uncovers-attack"),
                    Some(_) => {}
                }
                st.class_if(!(file_of(k) == 4 && (rf == 0 || rf == 7)), "castle-non-orthodox-files");
            }
        }
    }
    st.class_if(legal.iter().any(|m| m.promo.is_some()), "promotion-available");
    if legal.is_empty() {
        st.class(if checkers > 0 { "checkmate" } else { "stalemate" });
    }
    st.class_if(p.hm >= 99, "halfmove-clock>=99");
    st.class_if(p.fm >= 65534, "fullmove-number>=65534");
}
