//! Naive mailbox reference model of chess / Chess960.
//!
//! Shares no code and no tables with cozy-chess. Everything walks squares one step at a
//! time with explicit bounds checks; legality is decided by make-the-move-and-look.
//! Castling moves are encoded king-from -> own-rook-square, like the library does, so that
//! move sets can be compared directly.

use std::fmt::Write as _;

#[derive(Clone, Copy, PartialEq, Eq, Hash, Debug, PartialOrd, Ord)]
pub enum Kind {
    P,
    N,
    B,
    R,
    Q,
    K,
}

impl Kind {
    pub const ALL: [Kind; 6] = [Kind::P, Kind::N, Kind::B, Kind::R, Kind::Q, Kind::K];
    pub fn lower(self) -> char {
        match self {
            Kind::P => 'p',
            Kind::N => 'n',
            Kind::B => 'b',
            Kind::R => 'r',
            Kind::Q => 'q',
            Kind::K => 'k',
        }
    }
    pub fn upper(self) -> char {
        self.lower().to_ascii_uppercase()
    }
    pub fn from_lower(c: char) -> Option<Kind> {
        Some(match c {
            'p' => Kind::P,
            'n' => Kind::N,
            'b' => Kind::B,
            'r' => Kind::R,
            'q' => Kind::Q,
            'k' => Kind::K,
            _ => return None,
        })
    }
}

#[derive(Clone, Copy, PartialEq, Eq, Hash, Debug, PartialOrd, Ord)]
pub enum Side {
    W,
    B,
}

impl Side {
    pub fn other(self) -> Side {
        match self {
            Side::W => Side::B,
            Side::B => Side::W,
        }
    }
    pub fn idx(self) -> usize {
        match self {
            Side::W => 0,
            Side::B => 1,
        }
    }
    /// Rank index (0-based) of this side's back rank.
    pub fn back_rank(self) -> i32 {
        match self {
            Side::W => 0,
            Side::B => 7,
        }
    }
    /// Direction pawns of this side move in.
    pub fn fwd(self) -> i32 {
        match self {
            Side::W => 1,
            Side::B => -1,
        }
    }
}

pub type Sq = u8;

pub fn sq(file: i32, rank: i32) -> Sq {
    debug_assert!((0..8).contains(&file) && (0..8).contains(&rank));
    (rank * 8 + file) as Sq
}
pub fn file_of(s: Sq) -> i32 {
    (s & 7) as i32
}
pub fn rank_of(s: Sq) -> i32 {
    (s >> 3) as i32
}
pub fn on_board(file: i32, rank: i32) -> bool {
    (0..8).contains(&file) && (0..8).contains(&rank)
}
pub fn sq_name(s: Sq) -> String {
    format!("{}{}", (b'a' + (s & 7)) as char, (b'1' + (s >> 3)) as char)
}
pub fn file_char(f: u8) -> char {
    (b'a' + f) as char
}

#[derive(Clone, Copy, PartialEq, Eq, Hash, Debug, PartialOrd, Ord)]
pub struct RMove {
    pub from: Sq,
    pub to: Sq,
    pub promo: Option<Kind>,
}

impl RMove {
    pub fn text(&self) -> String {
        let mut s = format!("{}{}", sq_name(self.from), sq_name(self.to));
        if let Some(p) = self.promo {
            s.push(p.lower());
        }
        s
    }
    pub fn parse(s: &str) -> Option<RMove> {
        let b = s.as_bytes();
        if b.len() < 4 || b.len() > 5 {
            return None;
        }
        let sqp = |f: u8, r: u8| -> Option<Sq> {
            if (b'a'..=b'h').contains(&f) && (b'1'..=b'8').contains(&r) {
                Some((r - b'1') * 8 + (f - b'a'))
            } else {
                None
            }
        };
        let from = sqp(b[0], b[1])?;
        let to = sqp(b[2], b[3])?;
        let promo = if b.len() == 5 { Some(Kind::from_lower(b[4] as char)?) } else { None };
        Some(RMove { from, to, promo })
    }
}

/// `rights[side][0]` = short (king side) rook file, `rights[side][1]` = long rook file.
#[derive(Clone, PartialEq, Eq, Hash, Debug)]
pub struct Pos {
    pub board: [Option<(Kind, Side)>; 64],
    pub stm: Side,
    pub rights: [[Option<u8>; 2]; 2],
    pub ep: Option<u8>,
    pub hm: u32,
    pub fm: u32,
}

const KNIGHT_D: [(i32, i32); 8] = [(1, 2), (2, 1), (2, -1), (1, -2), (-1, -2), (-2, -1), (-2, 1), (-1, 2)];
const KING_D: [(i32, i32); 8] = [(0, 1), (1, 1), (1, 0), (1, -1), (0, -1), (-1, -1), (-1, 0), (-1, 1)];
const ROOK_D: [(i32, i32); 4] = [(0, 1), (1, 0), (0, -1), (-1, 0)];
const BISHOP_D: [(i32, i32); 4] = [(1, 1), (1, -1), (-1, -1), (-1, 1)];

impl Pos {
    pub fn empty() -> Pos {
        Pos { board: [None; 64], stm: Side::W, rights: [[None; 2]; 2], ep: None, hm: 0, fm: 1 }
    }

    pub fn at(&self, f: i32, r: i32) -> Option<(Kind, Side)> {
        if on_board(f, r) {
            self.board[sq(f, r) as usize]
        } else {
            None
        }
    }

    pub fn king_sq(&self, side: Side) -> Option<Sq> {
        (0..64u8).find(|&s| self.board[s as usize] == Some((Kind::K, side)))
    }

    pub fn count(&self, kind: Kind, side: Side) -> usize {
        self.board.iter().filter(|&&p| p == Some((kind, side))).count()
    }

    /// All squares holding a piece of `by` that attacks `target` (pawns attack diagonally
    /// forward; sliders are blocked by the first piece on the ray; kings attack neighbours).
    pub fn attackers(&self, target: Sq, by: Side) -> Vec<Sq> {
        let mut out = Vec::new();
        let (tf, tr) = (file_of(target), rank_of(target));
        for (df, dr) in KNIGHT_D {
            if self.at(tf + df, tr + dr) == Some((Kind::N, by)) {
                out.push(sq(tf + df, tr + dr));
            }
        }
        for (df, dr) in KING_D {
            if self.at(tf + df, tr + dr) == Some((Kind::K, by)) {
                out.push(sq(tf + df, tr + dr));
            }
        }
        // A pawn of `by` standing one rank "behind" (from its own point of view) and one
        // file to the side attacks `target`.
        for df in [-1, 1] {
            let (pf, pr) = (tf + df, tr - by.fwd());
            if self.at(pf, pr) == Some((Kind::P, by)) {
                out.push(sq(pf, pr));
            }
        }
        for (dirs, a, b) in [(ROOK_D, Kind::R, Kind::Q), (BISHOP_D, Kind::B, Kind::Q)] {
            for (df, dr) in dirs {
                let (mut f, mut r) = (tf + df, tr + dr);
                while on_board(f, r) {
                    if let Some((k, s)) = self.at(f, r) {
                        if s == by && (k == a || k == b) {
                            out.push(sq(f, r));
                        }
                        break;
                    }
                    f += df;
                    r += dr;
                }
            }
        }
        out.sort_unstable();
        out
    }

    pub fn attacked(&self, target: Sq, by: Side) -> bool {
        !self.attackers(target, by).is_empty()
    }

    pub fn in_check(&self, side: Side) -> bool {
        match self.king_sq(side) {
            Some(k) => self.attacked(k, side.other()),
            None => false,
        }
    }

    /// Enemy pieces attacking the mover's king, as a bit mask.
    pub fn checkers_mask(&self) -> u64 {
        let k = self.king_sq(self.stm).expect("king");
        self.attackers(k, self.stm.other()).iter().fold(0u64, |m, &s| m | 1u64 << s)
    }

    /// Pieces of either colour standing alone between the mover's king and an enemy
    /// rook/bishop/queen aligned with it on a line that piece moves along.
    pub fn pinned_mask(&self) -> u64 {
        self.pinned_mask_for(self.stm)
    }

    pub fn pinned_mask_for(&self, side: Side) -> u64 {
        let k = self.king_sq(side).expect("king");
        let (kf, kr) = (file_of(k), rank_of(k));
        let enemy = side.other();
        let mut mask = 0u64;
        for (dirs, a) in [(ROOK_D, Kind::R), (BISHOP_D, Kind::B)] {
            for (df, dr) in dirs {
                let (mut f, mut r) = (kf + df, kr + dr);
                let mut between: Vec<Sq> = Vec::new();
                while on_board(f, r) {
                    if let Some((kind, s)) = self.at(f, r) {
                        if s == enemy && (kind == a || kind == Kind::Q) {
                            if between.len() == 1 {
                                mask |= 1u64 << between[0];
                            }
                            // An enemy slider of the right kind: nothing behind it matters
                            // for *this* slider, but a further slider behind it is separated
                            // from the king by at least this one plus `between`.
                            between.push(sq(f, r));
                        } else {
                            between.push(sq(f, r));
                        }
                        if between.len() > 1 {
                            // A slider further out would have >= 2 pieces in between.
                            break;
                        }
                    }
                    f += df;
                    r += dr;
                }
            }
        }
        mask
    }

    fn push_promos(out: &mut Vec<RMove>, from: Sq, to: Sq, side: Side) {
        if rank_of(to) == side.other().back_rank() {
            for p in [Kind::N, Kind::B, Kind::R, Kind::Q] {
                out.push(RMove { from, to, promo: Some(p) });
            }
        } else {
            out.push(RMove { from, to, promo: None });
        }
    }

    /// Pseudo-legal moves: correct piece movement, own king safety not considered.
    /// Castling is *not* included here (see `castle_moves`). Moves capturing a king are
    /// never generated.
    pub fn pseudo_moves(&self) -> Vec<RMove> {
        let us = self.stm;
        let them = us.other();
        let mut out = Vec::new();
        for from in 0..64u8 {
            let Some((kind, side)) = self.board[from as usize] else { continue };
            if side != us {
                continue;
            }
            let (ff, fr) = (file_of(from), rank_of(from));
            let step = |out: &mut Vec<RMove>, f: i32, r: i32| {
                if !on_board(f, r) {
                    return;
                }
                match self.at(f, r) {
                    Some((Kind::K, s)) if s == them => {}
                    Some((_, s)) if s == us => {}
                    _ => out.push(RMove { from, to: sq(f, r), promo: None }),
                }
            };
            match kind {
                Kind::N => {
                    for (df, dr) in KNIGHT_D {
                        step(&mut out, ff + df, fr + dr);
                    }
                }
                Kind::K => {
                    for (df, dr) in KING_D {
                        step(&mut out, ff + df, fr + dr);
                    }
                }
                Kind::R | Kind::B | Kind::Q => {
                    let mut dirs: Vec<(i32, i32)> = Vec::new();
                    if kind != Kind::B {
                        dirs.extend(ROOK_D);
                    }
                    if kind != Kind::R {
                        dirs.extend(BISHOP_D);
                    }
                    for (df, dr) in dirs {
                        let (mut f, mut r) = (ff + df, fr + dr);
                        while on_board(f, r) {
                            match self.at(f, r) {
                                None => out.push(RMove { from, to: sq(f, r), promo: None }),
                                Some((k, s)) => {
                                    if s == them && k != Kind::K {
                                        out.push(RMove { from, to: sq(f, r), promo: None });
                                    }
                                    break;
                                }
                            }
                            f += df;
                            r += dr;
                        }
                    }
                }
                Kind::P => {
                    let d = us.fwd();
                    let start_rank = if us == Side::W { 1 } else { 6 };
                    if on_board(ff, fr + d) && self.at(ff, fr + d).is_none() {
                        Self::push_promos(&mut out, from, sq(ff, fr + d), us);
                        if fr == start_rank && on_board(ff, fr + 2 * d) && self.at(ff, fr + 2 * d).is_none() {
                            out.push(RMove { from, to: sq(ff, fr + 2 * d), promo: None });
                        }
                    }
                    for df in [-1, 1] {
                        let (tf, tr) = (ff + df, fr + d);
                        if !on_board(tf, tr) {
                            continue;
                        }
                        match self.at(tf, tr) {
                            Some((k, s)) if s == them && k != Kind::K => {
                                Self::push_promos(&mut out, from, sq(tf, tr), us);
                            }
                            None => {
                                // en passant: target square is the passed square of the
                                // recorded file, victim pawn stands beside the capturer.
                                if let Some(epf) = self.ep {
                                    let ep_rank = if us == Side::W { 5 } else { 2 };
                                    if tf == epf as i32 && tr == ep_rank && self.at(tf, fr) == Some((Kind::P, them)) {
                                        out.push(RMove { from, to: sq(tf, tr), promo: None });
                                    }
                                }
                            }
                            _ => {}
                        }
                    }
                }
            }
        }
        out
    }

    /// Is `mv` (pseudo-legal, non-castling) an en-passant capture?
    pub fn is_ep_capture(&self, mv: RMove) -> bool {
        matches!(self.board[mv.from as usize], Some((Kind::P, _)))
            && file_of(mv.from) != file_of(mv.to)
            && self.board[mv.to as usize].is_none()
    }

    pub fn is_castle(&self, mv: RMove) -> bool {
        matches!(self.board[mv.from as usize], Some((Kind::K, s)) if s == self.stm)
            && matches!(self.board[mv.to as usize], Some((Kind::R, s)) if s == self.stm)
    }

    /// Why a castling right can (None) or cannot (Some(reason)) be exercised right now.
    pub fn castle_obstacle(&self, wing: usize) -> Option<&'static str> {
        let us = self.stm;
        let them = us.other();
        let Some(rook_file) = self.rights[us.idx()][wing] else { return Some("no-right") };
        let br = us.back_rank();
        let Some(k) = self.king_sq(us) else { return Some("no-king") };
        if rank_of(k) != br {
            return Some("king-off-rank");
        }
        let kf = file_of(k);
        let rf = rook_file as i32;
        if self.at(rf, br) != Some((Kind::R, us)) {
            return Some("no-rook");
        }
        let (kd, rd) = if wing == 0 { (6, 5) } else { (2, 3) };
        // All squares between king start and king destination, and between rook start and
        // rook destination, destinations included, must be vacant except for the castling
        // king and rook themselves.
        let span = |a: i32, b: i32| -> Vec<i32> { (a.min(b)..=a.max(b)).collect() };
        for f in span(kf, kd).into_iter().chain(span(rf, rd)) {
            if f == kf || f == rf {
                continue;
            }
            if self.at(f, br).is_some() {
                return Some("blocked");
            }
        }
        if self.attacked(k, them) {
            return Some("in-check");
        }
        // No square the king crosses or lands on may be attacked. Attack detection is done
        // with the king lifted off the board (it cannot shield itself) and, for the final
        // square, on the position after castling (rook relocated).
        let mut lifted = self.clone();
        lifted.board[k as usize] = None;
        for f in span(kf, kd) {
            if f == kf {
                continue;
            }
            // The castling rook still stands on its origin while the king "travels"; the
            // FIDE wording only requires the squares not to be attacked, which is judged on
            // the current position (minus the king). The final position is tested below.
            if lifted.attacked(sq(f, br), them) {
                return Some("through-attack");
            }
        }
        let after = self.make(RMove { from: k, to: sq(rf, br), promo: None });
        if after.attacked(sq(kd, br), them) {
            return Some("into-attack");
        }
        None
    }

    pub fn castle_moves(&self) -> Vec<RMove> {
        let mut out = Vec::new();
        let us = self.stm;
        for wing in 0..2 {
            if self.castle_obstacle(wing).is_none() {
                let k = self.king_sq(us).unwrap();
                let rf = self.rights[us.idx()][wing].unwrap() as i32;
                out.push(RMove { from: k, to: sq(rf, us.back_rank()), promo: None });
            }
        }
        out
    }

    pub fn legal_moves(&self) -> Vec<RMove> {
        let us = self.stm;
        let mut out: Vec<RMove> = self
            .pseudo_moves()
            .into_iter()
            .filter(|&m| {
                let after = self.make(m);
                !after.in_check(us)
            })
            .collect();
        out.extend(self.castle_moves());
        out.sort_unstable();
        out
    }

    /// Successor position. `mv` must be pseudo-legal or a castling move.
    pub fn make(&self, mv: RMove) -> Pos {
        let mut n = self.clone();
        let us = self.stm;
        let them = us.other();
        let (kind, _) = self.board[mv.from as usize].expect("piece on from");
        let victim = self.board[mv.to as usize];
        let castle = self.is_castle(mv);
        n.ep = None;

        if castle {
            let br = us.back_rank();
            let short = file_of(mv.to) > file_of(mv.from);
            let (kd, rd) = if short { (6, 5) } else { (2, 3) };
            n.board[mv.from as usize] = None;
            n.board[mv.to as usize] = None;
            n.board[sq(kd, br) as usize] = Some((Kind::K, us));
            n.board[sq(rd, br) as usize] = Some((Kind::R, us));
            n.rights[us.idx()] = [None, None];
        } else {
            let ep_capture = self.is_ep_capture(mv);
            n.board[mv.from as usize] = None;
            n.board[mv.to as usize] = Some((mv.promo.unwrap_or(kind), us));
            if ep_capture {
                n.board[sq(file_of(mv.to), rank_of(mv.from)) as usize] = None;
            }
            if kind == Kind::K {
                n.rights[us.idx()] = [None, None];
            }
            if kind == Kind::R && rank_of(mv.from) == us.back_rank() {
                for w in 0..2 {
                    if n.rights[us.idx()][w] == Some(file_of(mv.from) as u8) {
                        n.rights[us.idx()][w] = None;
                    }
                }
            }
            if victim.is_some() && rank_of(mv.to) == them.back_rank() {
                for w in 0..2 {
                    if n.rights[them.idx()][w] == Some(file_of(mv.to) as u8) {
                        n.rights[them.idx()][w] = None;
                    }
                }
            }
            if kind == Kind::P && (rank_of(mv.to) - rank_of(mv.from)).abs() == 2 {
                n.ep = Some(file_of(mv.to) as u8);
            }
        }
        let capture = !castle && (victim.is_some() || self.is_ep_capture(mv));
        if kind == Kind::P || capture {
            n.hm = 0;
        } else {
            n.hm = (self.hm + 1).min(100);
        }
        if us == Side::B {
            n.fm = (self.fm + 1).min(65535);
        }
        n.stm = them;
        n
    }

    /// Null move: None when the mover is in check.
    pub fn null(&self) -> Option<Pos> {
        if self.in_check(self.stm) {
            return None;
        }
        let mut n = self.clone();
        n.ep = None;
        n.hm = (self.hm + 1).min(100);
        if self.stm == Side::B {
            n.fm = (self.fm + 1).min(65535);
        }
        n.stm = self.stm.other();
        Some(n)
    }

    /// File on which a *legal* en-passant capture exists, if any.
    pub fn legal_ep_file(&self) -> Option<u8> {
        let epf = self.ep?;
        let us = self.stm;
        for m in self.pseudo_moves() {
            if self.is_ep_capture(m) && file_of(m.to) == epf as i32 && !self.make(m).in_check(us) {
                return Some(epf);
            }
        }
        None
    }

    /// Structural soundness per property C06. Returns the first broken clause.
    pub fn structural_defect(&self) -> Option<&'static str> {
        for side in [Side::W, Side::B] {
            if self.count(Kind::K, side) != 1 {
                return Some("king-count");
            }
        }
        let wk = self.king_sq(Side::W).unwrap();
        let bk = self.king_sq(Side::B).unwrap();
        if (file_of(wk) - file_of(bk)).abs() <= 1 && (rank_of(wk) - rank_of(bk)).abs() <= 1 {
            return Some("kings-adjacent");
        }
        for side in [Side::W, Side::B] {
            let men = self.board.iter().filter(|p| matches!(p, Some((_, s)) if *s == side)).count();
            if men > 16 {
                return Some("more-than-16-men");
            }
            if self.count(Kind::P, side) > 8 {
                return Some("more-than-8-pawns");
            }
        }
        for f in 0..8 {
            for r in [0, 7] {
                if matches!(self.at(f, r), Some((Kind::P, _))) {
                    return Some("pawn-on-back-rank");
                }
            }
        }
        if self.in_check(self.stm.other()) {
            return Some("side-not-to-move-in-check");
        }
        for side in [Side::W, Side::B] {
            let k = self.king_sq(side).unwrap();
            for wing in 0..2 {
                if let Some(rf) = self.rights[side.idx()][wing] {
                    if rank_of(k) != side.back_rank() {
                        return Some("right-king-off-back-rank");
                    }
                    if self.at(rf as i32, side.back_rank()) != Some((Kind::R, side)) {
                        return Some("right-without-rook");
                    }
                    let ok = if wing == 0 { (rf as i32) > file_of(k) } else { (rf as i32) < file_of(k) };
                    if !ok {
                        return Some("right-wrong-side-of-king");
                    }
                }
            }
        }
        if let Some(epf) = self.ep {
            let them = self.stm.other();
            // `them` just advanced a pawn two squares: it now stands on its fourth rank,
            // its origin (second rank) and the passed square (third rank) are empty.
            let (r2, r3, r4) = if them == Side::W { (1, 2, 3) } else { (6, 5, 4) };
            if self.at(epf as i32, r4) != Some((Kind::P, them)) {
                return Some("ep-without-pawn");
            }
            if self.at(epf as i32, r3).is_some() {
                return Some("ep-passed-square-occupied");
            }
            if self.at(epf as i32, r2).is_some() {
                return Some("ep-origin-occupied");
            }
        }
        if self.hm > 100 {
            return Some("halfmove-clock-out-of-range");
        }
        if self.fm < 1 || self.fm > 65535 {
            return Some("fullmove-number-out-of-range");
        }
        None
    }

    pub fn placement_text(&self) -> String {
        let mut s = String::new();
        for r in (0..8).rev() {
            let mut empty = 0;
            for f in 0..8 {
                match self.at(f, r) {
                    None => empty += 1,
                    Some((k, side)) => {
                        if empty > 0 {
                            write!(s, "{}", empty).unwrap();
                            empty = 0;
                        }
                        s.push(if side == Side::W { k.upper() } else { k.lower() });
                    }
                }
            }
            if empty > 0 {
                write!(s, "{}", empty).unwrap();
            }
            if r > 0 {
                s.push('/');
            }
        }
        s
    }

    /// Canonical six-field record. Shredder: rook file letters; plain: KQkq (only meaningful
    /// when every right is on the a/h file). Order: white short, white long, black short,
    /// black long.
    pub fn to_fen(&self, shredder: bool) -> String {
        let mut s = self.placement_text();
        s.push(' ');
        s.push(if self.stm == Side::W { 'w' } else { 'b' });
        s.push(' ');
        let mut any = false;
        for side in [Side::W, Side::B] {
            for wing in 0..2 {
                if let Some(f) = self.rights[side.idx()][wing] {
                    let c = if shredder { file_char(f) } else if wing == 0 { 'k' } else { 'q' };
                    s.push(if side == Side::W { c.to_ascii_uppercase() } else { c });
                    any = true;
                }
            }
        }
        if !any {
            s.push('-');
        }
        s.push(' ');
        match self.ep {
            None => s.push('-'),
            Some(f) => {
                s.push(file_char(f));
                s.push(if self.stm == Side::W { '6' } else { '3' });
            }
        }
        write!(s, " {} {}", self.hm, self.fm).unwrap();
        s
    }

    pub fn plain_fen_expressible(&self) -> bool {
        for side in 0..2 {
            if matches!(self.rights[side][0], Some(f) if f != 7) || matches!(self.rights[side][1], Some(f) if f != 0) {
                return false;
            }
        }
        true
    }

    pub fn perft(&self, depth: u32) -> u64 {
        if depth == 0 {
            return 1;
        }
        let moves = self.legal_moves();
        if depth == 1 {
            return moves.len() as u64;
        }
        moves.iter().map(|&m| self.make(m).perft(depth - 1)).sum()
    }

    /// PGN-standard SAN of a legal move.
    pub fn san(&self, mv: RMove) -> String {
        let legal = self.legal_moves();
        let (kind, _) = self.board[mv.from as usize].expect("piece");
        let mut s = String::new();
        if self.is_castle(mv) {
            s.push_str(if file_of(mv.to) > file_of(mv.from) { "O-O" } else { "O-O-O" });
        } else {
            let capture = self.board[mv.to as usize].is_some() || self.is_ep_capture(mv);
            if kind == Kind::P {
                if capture {
                    s.push(file_char(file_of(mv.from) as u8));
                }
            } else {
                s.push(kind.upper());
                // Other legal moves of the same kind of piece to the same square
                // (castling moves never compete: they are written O-O).
                let rivals: Vec<Sq> = legal
                    .iter()
                    .filter(|m| {
                        m.to == mv.to
                            && m.from != mv.from
                            && !self.is_castle(**m)
                            && matches!(self.board[m.from as usize], Some((k, _)) if k == kind)
                    })
                    .map(|m| m.from)
                    .collect();
                if !rivals.is_empty() {
                    let same_file = rivals.iter().any(|&r| file_of(r) == file_of(mv.from));
                    let same_rank = rivals.iter().any(|&r| rank_of(r) == rank_of(mv.from));
                    if !same_file {
                        s.push(file_char(file_of(mv.from) as u8));
                    } else if !same_rank {
                        s.push((b'1' + rank_of(mv.from) as u8) as char);
                    } else {
                        s.push_str(&sq_name(mv.from));
                    }
                }
            }
            if capture {
                s.push('x');
            }
            s.push_str(&sq_name(mv.to));
            if let Some(p) = mv.promo {
                s.push('=');
                s.push(p.upper());
            }
        }
        let after = self.make(mv);
        if after.in_check(after.stm) {
            s.push(if after.legal_moves().is_empty() { '#' } else { '+' });
        }
        s
    }

    /// Standard UCI text for orthodox-rights boards (castle = king's two-square move).
    pub fn uci_std(&self, mv: RMove) -> String {
        if self.is_castle(mv) {
            let br = self.stm.back_rank();
            let kd = if file_of(mv.to) > file_of(mv.from) { 6 } else { 2 };
            return RMove { from: mv.from, to: sq(kd, br), promo: None }.text();
        }
        mv.text()
    }

    pub fn orthodox_rights(&self) -> bool {
        for side in [Side::W, Side::B] {
            let r = self.rights[side.idx()];
            if r[0].is_some() || r[1].is_some() {
                match self.king_sq(side) {
                    Some(k) if file_of(k) == 4 && rank_of(k) == side.back_rank() => {}
                    _ => return false,
                }
            }
            if matches!(r[0], Some(f) if f != 7) || matches!(r[1], Some(f) if f != 0) {
                return false;
            }
        }
        true
    }
}

// ------------------------------------------------------------------------------------------
// Tolerant FEN decoding: says what a six-field text *denotes*, without judging whether the
// position is sound. Used by C08 to check "the board returned is the position the text denotes".

#[derive(Debug, Clone, PartialEq, Eq)]
pub enum Denote {
    /// Structure (field count / rank count / file count) is not what C08 requires.
    BadStructure(&'static str),
    /// Structure fine, but some field is not decodable under this reading.
    Undecodable(&'static str),
    Pos(Box<Pos>),
}

fn parse_clock(s: &str) -> Option<u64> {
    // Tolerant: optional leading '+', leading zeros. (The property is silent on those.)
    let t = s.strip_prefix('+').unwrap_or(s);
    if t.is_empty() || !t.bytes().all(|b| b.is_ascii_digit()) {
        return None;
    }
    let t = t.trim_start_matches('0');
    if t.len() > 12 {
        return Some(u64::MAX);
    }
    if t.is_empty() {
        return Some(0);
    }
    t.parse().ok()
}

pub fn decode_fen(text: &str, shredder: bool) -> Denote {
    let fields: Vec<&str> = text.split(' ').collect();
    if fields.len() != 6 {
        return Denote::BadStructure("field-count");
    }
    if fields.iter().any(|f| f.is_empty()) {
        return Denote::BadStructure("empty-field");
    }
    let ranks: Vec<&str> = fields[0].split('/').collect();
    if ranks.len() != 8 {
        return Denote::BadStructure("rank-count");
    }
    let mut p = Pos::empty();
    for (i, row) in ranks.iter().enumerate() {
        let r = 7 - i as i32;
        let mut f = 0i32;
        for c in row.chars() {
            if let Some(d) = c.to_digit(10) {
                f += d as i32;
            } else if let Some(k) = Kind::from_lower(c.to_ascii_lowercase()) {
                if f >= 8 {
                    return Denote::BadStructure("rank-too-long");
                }
                let side = if c.is_ascii_uppercase() { Side::W } else { Side::B };
                p.board[sq(f, r) as usize] = Some((k, side));
                f += 1;
            } else {
                return Denote::BadStructure("placement-char");
            }
        }
        if f != 8 {
            return Denote::BadStructure("rank-length");
        }
    }
    p.stm = match fields[1] {
        "w" => Side::W,
        "b" => Side::B,
        _ => return Denote::Undecodable("side"),
    };
    if fields[2] != "-" {
        for c in fields[2].chars() {
            let side = if c.is_ascii_uppercase() { Side::W } else { Side::B };
            let lc = c.to_ascii_lowercase();
            let (wing, file) = if shredder {
                if !('a'..='h').contains(&lc) {
                    return Denote::Undecodable("castling");
                }
                let file = lc as u8 - b'a';
                let Some(k) = p.king_sq(side) else { return Denote::Undecodable("castling-no-king") };
                (if file_of(k) < file as i32 { 0 } else { 1 }, file)
            } else {
                match lc {
                    'k' => (0, 7u8),
                    'q' => (1, 0u8),
                    _ => return Denote::Undecodable("castling"),
                }
            };
            if p.rights[side.idx()][wing].is_some() {
                return Denote::Undecodable("castling-duplicate");
            }
            p.rights[side.idx()][wing] = Some(file);
        }
    }
    if fields[3] != "-" {
        let b = fields[3].as_bytes();
        if b.len() != 2 || !(b'a'..=b'h').contains(&b[0]) || !(b'1'..=b'8').contains(&b[1]) {
            return Denote::Undecodable("ep");
        }
        let want = if p.stm == Side::W { b'6' } else { b'3' };
        if b[1] != want {
            return Denote::Undecodable("ep-rank");
        }
        p.ep = Some(b[0] - b'a');
    }
    match parse_clock(fields[4]) {
        Some(v) if v <= u32::MAX as u64 => p.hm = v as u32,
        _ => return Denote::Undecodable("halfmove"),
    }
    match parse_clock(fields[5]) {
        Some(v) if v <= u32::MAX as u64 => p.fm = v as u32,
        _ => return Denote::Undecodable("fullmove"),
    }
    Denote::Pos(Box::new(p))
}

/// Strict parse of a canonical record produced by `to_fen` (used for replay files and the
/// self-test only; never used as an oracle for the library's parser).
pub fn pos_from_fen(text: &str) -> Option<Pos> {
    for shredder in [false, true] {
        if let Denote::Pos(p) = decode_fen(text, shredder) {
            return Some(*p);
        }
    }
    None
}

/// Self-test against published perft numbers (chessprogramming.org "Perft Results" and the
/// Chess960 numbers quoted in the repository's own tests).
pub fn self_test(depth_cap: u32) -> Result<u64, String> {
    const CASES: &[(&str, &[u64])] = &[
        ("rnbqkbnr/pppppppp/8/8/8/8/PPPPPPPP/RNBQKBNR w KQkq - 0 1", &[20, 400, 8902, 197281]),
        ("r3k2r/p1ppqpb1/bn2pnp1/3PN3/1p2P3/2N2Q1p/PPPBBPPP/R3K2R w KQkq - 0 1", &[48, 2039, 97862, 4085603]),
        ("8/2p5/3p4/KP5r/1R3p1k/8/4P1P1/8 w - - 0 1", &[14, 191, 2812, 43238, 674624]),
        ("r3k2r/Pppp1ppp/1b3nbN/nP6/BBP1P3/q4N2/Pp1P2PP/R2Q1RK1 w kq - 0 1", &[6, 264, 9467, 422333]),
        ("rnbq1k1r/pp1Pbppp/2p5/8/2B5/8/PPP1NnPP/RNBQK2R w KQ - 1 8", &[44, 1486, 62379, 2103487]),
        ("r4rk1/1pp1qppp/p1np1n2/2b1p1B1/2B1P1b1/P1NP1N2/1PP1QPPP/R4RK1 w - - 0 10", &[46, 2079, 89890, 3894594]),
        ("1rqbkrbn/1ppppp1p/1n6/p1N3p1/8/2P4P/PP1PPPP1/1RQBKRBN w FBfb - 0 9", &[29, 502, 14569, 287739]),
        ("rbbqn1kr/pp2p1pp/6n1/2pp1p2/2P4P/P7/BP1PPPP1/R1BQNNKR w HAha - 0 9", &[27, 916, 25798, 890435]),
        ("rqbbknr1/1ppp2pp/p5n1/4pp2/P7/1PP5/1Q1PPPPP/R1BBKNRN w GAga - 0 9", &[24, 600, 15347, 408207]),
        ("rkb2bnr/pp2pppp/2p1n3/3p4/q2P4/5NP1/PPP1PP1P/RKBNQBR1 w Aha - 0 9", &[29, 861, 24504, 763454]),
    ];
    let mut nodes = 0u64;
    for (fen, want) in CASES {
        let pos = pos_from_fen(fen).ok_or_else(|| format!("self-test: cannot decode {}", fen))?;
        for (i, &w) in want.iter().enumerate() {
            let d = i as u32 + 1;
            if d > depth_cap {
                break;
            }
            let got = pos.perft(d);
            nodes += got;
            if got != w {
                return Err(format!("reference model perft({}) of '{}' = {} but published value is {}", d, fen, got, w));
            }
        }
    }
    // SAN spot checks against hand-derived canonical forms.
    let p = pos_from_fen("3k2n1/7P/Q3p3/4BPp1/Q1Q4q/8/5B2/R3K2R w KQ g6 0 1").unwrap();
    for (m, want) in [("h7g8r", "hxg8=R+"), ("e1a1", "O-O-O+"), ("e5d4", "Bd4"), ("f5g6", "fxg6"), ("a4a5", "Q4a5+"), ("a6b5", "Q6b5"), ("a4b5", "Qa4b5"), ("c4b5", "Qcb5")] {
        let got = p.san(RMove::parse(m).unwrap());
        if got != want {
            return Err(format!("reference SAN of {} = {} expected {}", m, got, want));
        }
    }
    Ok(nodes)
}
