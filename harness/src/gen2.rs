//! Generators for near-invalid builder states and for FEN strings (mutated, labelled, arbitrary).

use crate::bridge::*;
use crate::gen::*;
use crate::refmodel::*;
use proptest::collection::vec;
use proptest::prelude::*;

// ------------------------------------------------------------------------------------------
// Aspects of a builder state, judged by the reference model (C06/C09 wording)

#[derive(Clone, Copy, PartialEq, Eq, Debug, PartialOrd, Ord)]
pub enum Aspect {
    Placement,
    Rights,
    EnPassant,
    Halfmove,
    Fullmove,
}

impl Aspect {
    pub fn name(self) -> &'static str {
        match self {
            Aspect::Placement => "placement",
            Aspect::Rights => "castling-rights",
            Aspect::EnPassant => "en-passant",
            Aspect::Halfmove => "halfmove-clock",
            Aspect::Fullmove => "fullmove-number",
        }
    }
}

/// Which aspects of the state are wrong, with the first reason for each. Placement covers
/// everything C06 says about pieces and the side not to move; rights, EP square and clocks
/// are judged against that placement.
pub fn defective_aspects(st: &RawState) -> Vec<(Aspect, &'static str)> {
    let mut out = Vec::new();
    let base = Pos { board: st.board, stm: st.stm, rights: [[None; 2]; 2], ep: None, hm: 0, fm: 1 };
    let placement = base.count(Kind::K, Side::W) == 1 && base.count(Kind::K, Side::B) == 1;
    let placement_defect = if placement { base.structural_defect() } else { Some("king-count") };
    if let Some(d) = placement_defect {
        out.push((Aspect::Placement, d));
    }
    // rights
    let mut rights_defect = None;
    for side in [Side::W, Side::B] {
        for wing in 0..2 {
            if let Some(rf) = st.rights[side.idx()][wing] {
                let kings: Vec<u8> = (0..64u8).filter(|&s| st.board[s as usize] == Some((Kind::K, side))).collect();
                if kings.len() != 1 || rank_of(kings[0]) != side.back_rank() {
                    rights_defect = rights_defect.or(Some("right-king-off-back-rank"));
                    continue;
                }
                if st.board[sq(rf as i32, side.back_rank()) as usize] != Some((Kind::R, side)) {
                    rights_defect = rights_defect.or(Some("right-without-rook"));
                    continue;
                }
                let kf = file_of(kings[0]);
                let ok = if wing == 0 { (rf as i32) > kf } else { (rf as i32) < kf };
                if !ok {
                    rights_defect = rights_defect.or(Some("right-wrong-side-of-king"));
                }
            }
        }
    }
    if let Some(d) = rights_defect {
        out.push((Aspect::Rights, d));
    }
    // en passant
    if let Some(e) = st.ep {
        let them = st.stm.other();
        let (r4, r3, r2) = if them == Side::W { (3, 2, 1) } else { (4, 5, 6) };
        let f = file_of(e);
        let d = if rank_of(e) != r3 {
            Some("ep-wrong-rank")
        } else if st.board[sq(f, r4) as usize] != Some((Kind::P, them)) {
            Some("ep-without-pawn")
        } else if st.board[sq(f, r3) as usize].is_some() {
            Some("ep-passed-square-occupied")
        } else if st.board[sq(f, r2) as usize].is_some() {
            Some("ep-origin-occupied")
        } else {
            None
        };
        if let Some(d) = d {
            out.push((Aspect::EnPassant, d));
        }
    }
    if st.hm > 100 {
        out.push((Aspect::Halfmove, "halfmove-clock-out-of-range"));
    }
    if st.fm == 0 {
        out.push((Aspect::Fullmove, "fullmove-number-zero"));
    }
    out
}

// ------------------------------------------------------------------------------------------
// Edits that push a state towards (or over) the edge of validity

#[derive(Clone, Debug)]
pub enum Edit {
    /// overwrite a square with any piece (kings and back-rank pawns included)
    Put(u8, u8, bool),
    /// remove the n-th occupied square
    Remove(u16),
    /// move the black king next to the white king (direction selector)
    KingsAdjacent(u8),
    SetRight(bool, bool, Option<u8>),
    SetEp(Option<u8>),
    SetHm(u8),
    SetFm(u16),
    FlipStm,
    /// add pawns of a side until it has nine
    NinthPawn(bool),
    /// add knights of a side until it has seventeen men
    SeventeenthMan(bool),
    /// put an enemy rook/queen/knight so that the side not to move is in check
    CheckWaitingSide(u8),
    /// add checkers against the side to move (towards three or more)
    ExtraCheckers(u8),
    /// relocate a king to another square (possibly off its back rank)
    MoveKing(bool, u8),
}

pub fn apply_edit(st: &mut RawState, e: &Edit) {
    let empties = |st: &RawState| -> Vec<u8> { (0..64u8).filter(|&s| st.board[s as usize].is_none()).collect() };
    match e {
        Edit::Put(s, k, black) => {
            st.board[(*s % 64) as usize] = Some((Kind::ALL[*k as usize % 6], if *black { Side::B } else { Side::W }));
        }
        Edit::Remove(n) => {
            let occ: Vec<u8> = (0..64u8).filter(|&s| st.board[s as usize].is_some()).collect();
            if !occ.is_empty() {
                st.board[occ[(*n as usize * occ.len()) >> 16] as usize] = None;
            }
        }
        Edit::KingsAdjacent(dir) => {
            if let (Some(wk), Some(bk)) = (st.king_sq(Side::W), st.king_sq(Side::B)) {
                let dirs = [(0, 1), (1, 1), (1, 0), (1, -1), (0, -1), (-1, -1), (-1, 0), (-1, 1)];
                for i in 0..8 {
                    let (df, dr) = dirs[(*dir as usize + i) % 8];
                    let (f, r) = (file_of(wk) + df, rank_of(wk) + dr);
                    if on_board(f, r) && st.board[sq(f, r) as usize].is_none() {
                        st.board[bk as usize] = None;
                        st.board[sq(f, r) as usize] = Some((Kind::K, Side::B));
                        break;
                    }
                }
            }
        }
        Edit::SetRight(black, long, file) => {
            st.rights[*black as usize][*long as usize] = file.map(|f| f % 8);
        }
        Edit::SetEp(s) => st.ep = s.map(|s| s % 64),
        Edit::SetHm(n) => st.hm = *n,
        Edit::SetFm(n) => st.fm = *n,
        Edit::FlipStm => st.stm = st.stm.other(),
        Edit::NinthPawn(black) => {
            let side = if *black { Side::B } else { Side::W };
            for s in empties(st) {
                let n = st.board.iter().filter(|&&p| p == Some((Kind::P, side))).count();
                if n >= 9 {
                    break;
                }
                if rank_of(s) >= 2 && rank_of(s) <= 5 {
                    st.board[s as usize] = Some((Kind::P, side));
                }
            }
        }
        Edit::SeventeenthMan(black) => {
            let side = if *black { Side::B } else { Side::W };
            for s in empties(st) {
                let n = st.board.iter().filter(|p| matches!(p, Some((_, c)) if *c == side)).count();
                if n >= 17 {
                    break;
                }
                st.board[s as usize] = Some((Kind::N, side));
            }
        }
        Edit::CheckWaitingSide(sel) => {
            let waiting = st.stm.other();
            if let Some(k) = st.king_sq(waiting) {
                let (kf, kr) = (file_of(k), rank_of(k));
                let cands: [(i32, i32, Kind); 6] = [(0, 1, Kind::R), (1, 0, Kind::Q), (1, 2, Kind::N), (-1, 0, Kind::R), (0, -1, Kind::Q), (-2, 1, Kind::N)];
                for i in 0..6 {
                    let (df, dr, kind) = cands[(*sel as usize + i) % 6];
                    let (f, r) = (kf + df, kr + dr);
                    if on_board(f, r) && st.board[sq(f, r) as usize].is_none() {
                        st.board[sq(f, r) as usize] = Some((kind, st.stm));
                        break;
                    }
                }
            }
        }
        Edit::ExtraCheckers(sel) => {
            let us = st.stm;
            if let Some(k) = st.king_sq(us) {
                let (kf, kr) = (file_of(k), rank_of(k));
                let cands: [(i32, i32, Kind); 8] = [(0, 2, Kind::R), (2, 0, Kind::R), (2, 2, Kind::B), (1, 2, Kind::N), (-2, 1, Kind::N), (0, -2, Kind::Q), (-2, -2, Kind::B), (-2, 0, Kind::R)];
                let mut placed = 0;
                for i in 0..8 {
                    let (df, dr, kind) = cands[(*sel as usize + i) % 8];
                    let (f, r) = (kf + df, kr + dr);
                    if on_board(f, r) && st.board[sq(f, r) as usize].is_none() {
                        // the square between (for sliders) must be empty for the check to land
                        let (mf, mr) = (kf + df / 2, kr + dr / 2);
                        if kind != Kind::N && st.board[sq(mf, mr) as usize].is_some() {
                            continue;
                        }
                        st.board[sq(f, r) as usize] = Some((kind, us.other()));
                        placed += 1;
                        if placed >= 3 {
                            break;
                        }
                    }
                }
            }
        }
        Edit::MoveKing(black, to) => {
            let side = if *black { Side::B } else { Side::W };
            if let Some(k) = st.king_sq(side) {
                let t = (*to % 64) as usize;
                if st.board[t].is_none() {
                    st.board[k as usize] = None;
                    st.board[t] = Some((Kind::K, side));
                }
            }
        }
    }
}

pub fn arb_edit() -> impl Strategy<Value = Edit> {
    prop_oneof![
        4 => (0u8..64, 0u8..6, any::<bool>()).prop_map(|(s, k, b)| Edit::Put(s, k, b)),
        3 => any::<u16>().prop_map(Edit::Remove),
        2 => (0u8..8).prop_map(Edit::KingsAdjacent),
        4 => (any::<bool>(), any::<bool>(), proptest::option::weighted(0.8, 0u8..8)).prop_map(|(b, l, f)| Edit::SetRight(b, l, f)),
        4 => proptest::option::weighted(0.85, 0u8..64).prop_map(Edit::SetEp),
        2 => prop_oneof![Just(100u8), Just(101), Just(255), Just(99), any::<u8>()].prop_map(Edit::SetHm),
        2 => prop_oneof![Just(0u16), Just(1), Just(65535), any::<u16>()].prop_map(Edit::SetFm),
        2 => Just(Edit::FlipStm),
        1 => any::<bool>().prop_map(Edit::NinthPawn),
        1 => any::<bool>().prop_map(Edit::SeventeenthMan),
        2 => (0u8..6).prop_map(Edit::CheckWaitingSide),
        2 => (0u8..8).prop_map(Edit::ExtraCheckers),
        1 => (any::<bool>(), 0u8..64).prop_map(|(b, t)| Edit::MoveKing(b, t)),
    ]
}

#[derive(Clone, Debug)]
pub struct EditedState {
    pub base: Ingredients,
    pub edits: Vec<Edit>,
}

impl EditedState {
    pub fn state(&self) -> RawState {
        crate::runner::guard("edited state", || {
            let mut st = assemble(&self.base);
            for e in &self.edits {
                apply_edit(&mut st, e);
            }
            st
        })
        .unwrap_or_else(RawState::empty)
    }
}

pub fn arb_edited_state() -> impl Strategy<Value = EditedState> {
    (arb_ingredients(), prop_oneof![2 => vec(arb_edit(), 0..1), 5 => vec(arb_edit(), 1..2), 3 => vec(arb_edit(), 2..4)]).prop_map(|(base, edits)| EditedState { base, edits })
}

// ------------------------------------------------------------------------------------------
// FEN strings

const FEN_ALPHABET: &[char] = &[
    'p', 'n', 'b', 'r', 'q', 'k', 'P', 'N', 'B', 'R', 'Q', 'K', '0', '1', '2', '3', '4', '5', '6', '7', '8', '9', '/', ' ', '-', '+', 'a', 'c', 'e', 'h', 'A', 'H', 'w', 'W', 'x', '\0', '\t', '\n',
    '\u{e9}', '\u{ff19}', '\u{1F600}', '\u{2009}',
    // characters whose Unicode case mapping lands on an ASCII letter (Kelvin sign -> k, long s -> S, dotless i -> I, I with dot -> i)
    '\u{212A}', '\u{17F}', '\u{131}', '\u{130}',
];

#[derive(Clone, Debug)]
pub enum FenMut {
    DeleteChar(u16),
    InsertChar(u16, u8),
    ReplaceChar(u16, u8),
    DropRank(u8),
    DupRank(u8),
    SwapRanks(u8, u8),
    DropField(u8),
    DupField(u8),
    SwapFields(u8, u8),
    EmptyField(u8),
    ClockExtreme(bool, u8),
    AppendField(u8),
    LeadingSpace,
    DoubleSpace(u8),
    CastlingNoise(u8),
    EpNoise(u8),
    /// a long run of one digit inside a rank (rank selector, digit, length): counters must not wrap
    DigitRun(u8, u8, u8),
    /// a field replaced by one multi-byte character
    MultiByteField(u8, u8),
}

pub const CLOCK_EXTREMES: [&str; 14] = ["100", "101", "255", "256", "65535", "65536", "-1", "0", "+7", "007", "123456789012345678901234567890", "", "1e2", "९"];

pub fn apply_fen_mut(text: &str, m: &FenMut) -> String {
    let chars: Vec<char> = text.chars().collect();
    let idx = |sel: u16, n: usize| (sel as usize * n) >> 16;
    let fields: Vec<String> = text.split(' ').map(|s| s.to_string()).collect();
    let join = |f: &[String]| f.join(" ");
    let with_field = |i: usize, f: &dyn Fn(&str) -> String| -> String {
        let mut fs = fields.clone();
        if i < fs.len() {
            fs[i] = f(&fs[i]);
        }
        join(&fs)
    };
    match m {
        FenMut::DeleteChar(p) => {
            if chars.is_empty() {
                return text.to_string();
            }
            let i = idx(*p, chars.len());
            chars.iter().enumerate().filter(|(j, _)| *j != i).map(|(_, c)| *c).collect()
        }
        FenMut::InsertChar(p, c) => {
            let i = idx(*p, chars.len() + 1);
            let mut v = chars.clone();
            v.insert(i, FEN_ALPHABET[*c as usize % FEN_ALPHABET.len()]);
            v.into_iter().collect()
        }
        FenMut::ReplaceChar(p, c) => {
            if chars.is_empty() {
                return text.to_string();
            }
            let i = idx(*p, chars.len());
            let mut v = chars.clone();
            v[i] = FEN_ALPHABET[*c as usize % FEN_ALPHABET.len()];
            v.into_iter().collect()
        }
        FenMut::DropRank(r) => with_field(0, &|f| {
            let mut ranks: Vec<&str> = f.split('/').collect();
            if !ranks.is_empty() {
                ranks.remove(*r as usize % ranks.len());
            }
            ranks.join("/")
        }),
        FenMut::DupRank(r) => with_field(0, &|f| {
            let mut ranks: Vec<&str> = f.split('/').collect();
            let i = *r as usize % ranks.len();
            ranks.insert(i, ranks[i]);
            ranks.join("/")
        }),
        FenMut::SwapRanks(a, b) => with_field(0, &|f| {
            let mut ranks: Vec<&str> = f.split('/').collect();
            let n = ranks.len();
            ranks.swap(*a as usize % n, *b as usize % n);
            ranks.join("/")
        }),
        FenMut::DropField(i) => {
            let mut fs = fields.clone();
            if !fs.is_empty() {
                fs.remove(*i as usize % fs.len());
            }
            join(&fs)
        }
        FenMut::DupField(i) => {
            let mut fs = fields.clone();
            let k = *i as usize % fs.len();
            fs.insert(k, fs[k].clone());
            join(&fs)
        }
        FenMut::SwapFields(a, b) => {
            let mut fs = fields.clone();
            let n = fs.len();
            fs.swap(*a as usize % n, *b as usize % n);
            join(&fs)
        }
        FenMut::EmptyField(i) => with_field(*i as usize % fields.len().max(1), &|_| String::new()),
        FenMut::ClockExtreme(full, v) => with_field(if *full { 5 } else { 4 }, &|_| CLOCK_EXTREMES[*v as usize % CLOCK_EXTREMES.len()].to_string()),
        FenMut::AppendField(v) => format!("{} {}", text, ["", "-", "0", "1", "w", "x", " "][*v as usize % 7]),
        FenMut::LeadingSpace => format!(" {}", text),
        FenMut::DoubleSpace(i) => {
            let mut fs = fields.clone();
            let k = *i as usize % fs.len();
            fs.insert(k, String::new());
            join(&fs)
        }
        FenMut::CastlingNoise(v) => with_field(2, &|f| match v % 10 {
            0 => "KQkq".into(),
            1 => "HAha".into(),
            2 => format!("{}{}", f, f),
            3 => "KQha".into(),
            4 => "kqKQ".into(),
            5 => f.to_ascii_uppercase(),
            6 => f.to_ascii_lowercase(),
            7 => f.chars().rev().collect(),
            8 => "Kk".into(),
            _ => "GCgc".into(),
        }),
        FenMut::DigitRun(r, d, n) => with_field(0, &|f| {
            let mut ranks: Vec<String> = f.split('/').map(|s| s.to_string()).collect();
            let i = *r as usize % ranks.len();
            let run: String = std::iter::repeat(char::from_digit(*d as u32 % 10, 10).unwrap()).take(*n as usize).collect();
            if r % 2 == 0 {
                ranks[i] = run;
            } else {
                ranks[i].push_str(&run);
            }
            ranks.join("/")
        }),
        FenMut::MultiByteField(i, c) => with_field(*i as usize % fields.len().max(1), &|_| ["\u{e9}", "\u{ff11}", "\u{1F600}", "\u{e9}\u{e9}", "a\u{e9}", "\u{e9}3"][*c as usize % 6].to_string()),
        FenMut::EpNoise(v) => with_field(3, &|f| match v % 8 {
            0 => "e3".into(),
            1 => "e6".into(),
            2 => "a3".into(),
            3 => "h6".into(),
            4 => format!("{}x", f),
            5 => "e4".into(),
            6 => f.to_ascii_uppercase(),
            _ => "--".into(),
        }),
    }
}

pub fn arb_fen_mut() -> impl Strategy<Value = FenMut> {
    prop_oneof![
        4 => any::<u16>().prop_map(FenMut::DeleteChar),
        4 => (any::<u16>(), any::<u8>()).prop_map(|(p, c)| FenMut::InsertChar(p, c)),
        4 => (any::<u16>(), any::<u8>()).prop_map(|(p, c)| FenMut::ReplaceChar(p, c)),
        2 => (0u8..8).prop_map(FenMut::DropRank),
        2 => (0u8..8).prop_map(FenMut::DupRank),
        1 => (0u8..8, 0u8..8).prop_map(|(a, b)| FenMut::SwapRanks(a, b)),
        2 => (0u8..6).prop_map(FenMut::DropField),
        1 => (0u8..6).prop_map(FenMut::DupField),
        1 => (0u8..6, 0u8..6).prop_map(|(a, b)| FenMut::SwapFields(a, b)),
        2 => (0u8..6).prop_map(FenMut::EmptyField),
        3 => (any::<bool>(), 0u8..14).prop_map(|(f, v)| FenMut::ClockExtreme(f, v)),
        2 => (0u8..7).prop_map(FenMut::AppendField),
        1 => Just(FenMut::LeadingSpace),
        1 => (0u8..7).prop_map(FenMut::DoubleSpace),
        3 => (0u8..10).prop_map(FenMut::CastlingNoise),
        3 => (0u8..8).prop_map(FenMut::EpNoise),
        2 => (0u8..8, 0u8..10, prop_oneof![1u8..12, 20u8..70, 28u8..30, 250u8..=255]).prop_map(|(r, d, n)| FenMut::DigitRun(r, d, n)),
        2 => (0u8..6, 0u8..6).prop_map(|(i, c)| FenMut::MultiByteField(i, c)),
    ]
}

/// Source of the canonical record a mutation starts from.
#[derive(Clone, Debug)]
pub enum RecordSource {
    Seed(usize),
    InvalidSeed(usize),
    Built(Box<Ingredients>, bool),
    Edited(Box<EditedState>),
    Dfrc(u32, u32, bool),
}

pub fn record_text(src: &RecordSource) -> String {
    match src {
        RecordSource::Seed(i) => {
            let f = seed_fens();
            f[*i % f.len()].to_string()
        }
        RecordSource::InvalidSeed(i) => {
            let f: Vec<&str> = INVALID_SEED_FENS.lines().filter(|l| !l.is_empty()).collect();
            f[*i % f.len()].to_string()
        }
        RecordSource::Built(ing, shredder) => {
            let st = assemble(ing);
            match st.to_pos() {
                Some(p) if *shredder || !p.plain_fen_expressible() => p.to_fen(true),
                Some(p) => p.to_fen(false),
                None => st.shredder_record(),
            }
        }
        RecordSource::Edited(es) => es.state().shredder_record(),
        RecordSource::Dfrc(w, b, shredder) => {
            let board = cozy_chess::Board::double_chess960_startpos(*w, *b);
            let p = pos_of_board(&board);
            if *shredder || !p.plain_fen_expressible() {
                p.to_fen(true)
            } else {
                p.to_fen(false)
            }
        }
    }
}

pub fn arb_record_source() -> impl Strategy<Value = RecordSource> {
    let n = seed_fens().len();
    let ni = INVALID_SEED_FENS.lines().count();
    prop_oneof![
        3 => (0..n).prop_map(RecordSource::Seed),
        1 => (0..ni).prop_map(RecordSource::InvalidSeed),
        5 => (arb_ingredients(), any::<bool>()).prop_map(|(i, s)| RecordSource::Built(Box::new(i), s)),
        2 => arb_edited_state().prop_map(|e| RecordSource::Edited(Box::new(e))),
        1 => (0u32..960, 0u32..960, any::<bool>()).prop_map(|(w, b, s)| RecordSource::Dfrc(w, b, s)),
    ]
}

#[derive(Clone, Debug)]
pub struct FenCase {
    pub source: RecordSource,
    pub muts: Vec<FenMut>,
}

impl FenCase {
    pub fn text(&self) -> String {
        crate::runner::guard("fen case text", || {
            let mut t = record_text(&self.source);
            for m in &self.muts {
                t = apply_fen_mut(&t, m);
            }
            t
        })
        .unwrap_or_default()
    }
}

pub fn arb_fen_case() -> impl Strategy<Value = FenCase> {
    (arb_record_source(), prop_oneof![2 => vec(arb_fen_mut(), 0..1), 5 => vec(arb_fen_mut(), 1..2), 2 => vec(arb_fen_mut(), 2..4)]).prop_map(|(source, muts)| FenCase { source, muts })
}

// ------------------------------------------------------------------------------------------
// Labelled single-field corruptions of a canonical record (the expected error is known)

#[derive(Clone, Debug)]
pub enum Corruption {
    // placement
    PlacementBadChar(u16, u8),
    PlacementRankLength(u8, bool),
    PlacementRankCount(u8, bool),
    PlacementEmptyRank(u8),
    PlacementEmpty,
    /// a rank made of a long run of digits whose sum is far from eight (also sums that are 8 mod 256)
    PlacementDigitRun(u8, u8),
    PlacementSemantic(Edit),
    // side
    SideBad(u8),
    // castling
    CastlingBad(u8),
    // en passant
    EpBad(u8),
    // clocks
    HalfmoveBad(u8),
    FullmoveBad(u8),
    // field count
    Truncate(u8),
    Append(u8),
}

pub const SIDE_BAD: [&str; 8] = ["", "W", "B", "x", "white", "wb", "-", "\u{e9}"];
pub const CASTLING_BAD: [&str; 12] = ["", "x", "KK", "KQkqK", "KQha", "HAkq", "Kx", "--", "0", "kk", "hh", "Q-"];
pub const EP_BAD: [&str; 14] = ["", "e", "e33", "3e", "i3", "e9", "e0", "--", "E3", "e3+", "x", "\u{e9}3", "\u{e9}", "e\u{e9}"];
pub const HALFMOVE_BAD: [&str; 14] = ["", "-1", "x", "101", "150", "255", "256", "1000", "1.5", "123456789012345678901234567890", "0x10", "१", "356", "65636"];
pub const FULLMOVE_BAD: [&str; 12] = ["", "-1", "x", "0", "65536", "100000", "1.5", "123456789012345678901234567890", "00", "१", "65537", "4294967297"];

pub fn arb_corruption() -> impl Strategy<Value = Corruption> {
    prop_oneof![
        2 => (any::<u16>(), any::<u8>()).prop_map(|(p, c)| Corruption::PlacementBadChar(p, c)),
        2 => (0u8..8, any::<bool>()).prop_map(|(r, l)| Corruption::PlacementRankLength(r, l)),
        2 => (0u8..8, any::<bool>()).prop_map(|(r, l)| Corruption::PlacementRankCount(r, l)),
        1 => (0u8..8).prop_map(Corruption::PlacementEmptyRank),
        1 => Just(Corruption::PlacementEmpty),
        1 => (0u8..8, 0u8..5).prop_map(|(r, k)| Corruption::PlacementDigitRun(r, k)),
        3 => arb_edit().prop_map(Corruption::PlacementSemantic),
        2 => (0u8..8).prop_map(Corruption::SideBad),
        4 => (0u8..40).prop_map(Corruption::CastlingBad),
        4 => (0u8..40).prop_map(Corruption::EpBad),
        3 => (0u8..14).prop_map(Corruption::HalfmoveBad),
        3 => (0u8..12).prop_map(Corruption::FullmoveBad),
        2 => (1u8..6).prop_map(Corruption::Truncate),
        2 => (0u8..9).prop_map(Corruption::Append),
    ]
}

/// Expected error class of a labelled corruption.
#[derive(Clone, Copy, PartialEq, Eq, Debug)]
pub enum Expect {
    Board,
    Side,
    Castling,
    EnPassant,
    Halfmove,
    Fullmove,
    Missing,
    TooMany,
}

/// Apply a corruption to the canonical record of an accepted position `p` (written in the
/// given notation). Returns the corrupted text and the expected error, or None when the
/// corruption does not apply / does not actually make the field wrong.
pub fn corrupt(p: &Pos, shredder: bool, c: &Corruption) -> Option<(String, Expect)> {
    let text = p.to_fen(shredder);
    let mut f: Vec<String> = text.split(' ').map(|s| s.to_string()).collect();
    let bad_chars = ['x', 'X', '9', '-', '+', '.', 'z', 'i', '\u{e9}', '\u{ff11}', '\0', '?', 'E', 'A', 'a', 'W', '\u{212A}', '\u{17F}'];
    let expect;
    match c {
        Corruption::PlacementBadChar(pos, ch) => {
            let chars: Vec<char> = f[0].chars().collect();
            let i = (*pos as usize * chars.len()) >> 16;
            let mut v = chars.clone();
            let c = bad_chars[*ch as usize % bad_chars.len()];
            if v[i] == '/' {
                return None;
            }
            // a digit '9' or a non-piece letter: the rank no longer denotes eight files / is illegal
            v[i] = c;
            f[0] = v.into_iter().collect();
            expect = Expect::Board;
        }
        Corruption::PlacementRankLength(r, longer) => {
            let mut ranks: Vec<String> = f[0].split('/').map(|s| s.to_string()).collect();
            let i = *r as usize % 8;
            if *longer {
                ranks[i].push('1');
            } else {
                // drop one file: remove a piece letter or decrement a digit
                let chars: Vec<char> = ranks[i].chars().collect();
                let last = *chars.last()?;
                let mut v = chars.clone();
                v.pop();
                if let Some(d) = last.to_digit(10) {
                    if d > 1 {
                        v.push(char::from_digit(d - 1, 10).unwrap());
                    }
                }
                ranks[i] = v.into_iter().collect();
            }
            f[0] = ranks.join("/");
            expect = Expect::Board;
        }
        Corruption::PlacementRankCount(r, more) => {
            let mut ranks: Vec<String> = f[0].split('/').map(|s| s.to_string()).collect();
            let i = *r as usize % 8;
            if *more {
                ranks.insert(i, "8".into());
            } else {
                // removing a rank that holds a king would be a second defect of the same field;
                // it is still the placement field that is wrong, so any rank will do.
                ranks.remove(i);
            }
            f[0] = ranks.join("/");
            expect = Expect::Board;
        }
        Corruption::PlacementEmptyRank(r) => {
            let mut ranks: Vec<String> = f[0].split('/').map(|s| s.to_string()).collect();
            ranks[*r as usize % 8] = String::new();
            f[0] = ranks.join("/");
            expect = Expect::Board;
        }
        Corruption::PlacementEmpty => {
            f[0] = String::new();
            expect = Expect::Board;
        }
        Corruption::PlacementDigitRun(r, kind) => {
            let mut ranks: Vec<String> = f[0].split('/').map(|s| s.to_string()).collect();
            // 29 nines and a three = 264 = 8 mod 256; 32 eights = 256; 33 eights = 264; many ones
            ranks[*r as usize % 8] = match kind % 5 {
                0 => format!("{}3", "9".repeat(29)),
                1 => "8".repeat(33),
                2 => format!("{}8", "8".repeat(32)),
                3 => "1".repeat(264),
                _ => format!("{}44", "8".repeat(8192)),
            };
            f[0] = ranks.join("/");
            expect = Expect::Board;
        }
        Corruption::PlacementSemantic(e) => {
            // only edits that touch the placement and leave every other aspect sound
            if !matches!(e, Edit::Put(..) | Edit::Remove(_) | Edit::KingsAdjacent(_) | Edit::NinthPawn(_) | Edit::SeventeenthMan(_) | Edit::CheckWaitingSide(_) | Edit::MoveKing(..)) {
                return None;
            }
            let mut st = RawState::from_pos(p);
            apply_edit(&mut st, e);
            let d = defective_aspects(&st);
            if d.len() != 1 || d[0].0 != Aspect::Placement {
                return None;
            }
            let q = Pos { board: st.board, ..p.clone() };
            f[0] = q.placement_text();
            expect = Expect::Board;
        }
        Corruption::SideBad(v) => {
            f[1] = SIDE_BAD[*v as usize % SIDE_BAD.len()].to_string();
            expect = Expect::Side;
        }
        Corruption::CastlingBad(v) => {
            let v = *v as usize;
            if v < CASTLING_BAD.len() {
                f[2] = CASTLING_BAD[v].to_string();
            } else {
                // a well-formed right the placement does not support: try every letter of the
                // notation and take the (v-th) one that makes the rights aspect wrong
                let letters: Vec<char> = if shredder { "ABCDEFGHabcdefgh".chars().collect() } else { "KQkq".chars().collect() };
                let cur: String = if f[2] == "-" { String::new() } else { f[2].clone() };
                let mut cands = Vec::new();
                for &l in &letters {
                    if cur.contains(l) {
                        continue;
                    }
                    let cand = format!("{}{}", cur, l);
                    let mut g = f.clone();
                    g[2] = cand.clone();
                    if !text_field_sound(&g.join(" "), 2) {
                        cands.push(cand);
                    }
                }
                if cands.is_empty() {
                    return None;
                }
                f[2] = cands[(v - CASTLING_BAD.len()) % cands.len()].clone();
            }
            expect = Expect::Castling;
        }
        Corruption::EpBad(v) => {
            let v = *v as usize;
            if v < EP_BAD.len() {
                f[3] = EP_BAD[v].to_string();
            } else {
                // a well-formed square that the position does not support
                let mut cands = Vec::new();
                for file in 0..8u8 {
                    for rank in 0..8u8 {
                        let name = sq_name(rank * 8 + file);
                        if name == f[3] {
                            continue;
                        }
                        let mut g = f.clone();
                        g[3] = name.clone();
                        if !text_field_sound(&g.join(" "), 3) {
                            cands.push(name);
                        }
                    }
                }
                if cands.is_empty() {
                    return None;
                }
                f[3] = cands[(v - EP_BAD.len()) * 7 % cands.len()].clone();
            }
            expect = Expect::EnPassant;
        }
        Corruption::HalfmoveBad(v) => {
            f[4] = HALFMOVE_BAD[*v as usize % HALFMOVE_BAD.len()].to_string();
            expect = Expect::Halfmove;
        }
        Corruption::FullmoveBad(v) => {
            f[5] = FULLMOVE_BAD[*v as usize % FULLMOVE_BAD.len()].to_string();
            expect = Expect::Fullmove;
        }
        Corruption::Truncate(n) => {
            f.truncate((*n as usize).clamp(1, 5));
            expect = Expect::Missing;
        }
        Corruption::Append(v) => {
            let extra: &[&str] = match v % 9 {
                0 => &[""],
                1 => &["x"],
                2 => &["0"],
                3 => &["-", "-"],
                4 => &["", ""],
                5 => &["w"],
                6 => &["1", "2", "3"],
                7 => &["-"],
                _ => &["\u{e9}"],
            };
            f.extend(extra.iter().map(|s| s.to_string()));
            expect = Expect::TooMany;
        }
    }
    Some((f.join(" "), expect))
}

/// Is field `i` (2 = castling, 3 = EP) of this six-field text sound for the placement it
/// comes with, under either castling notation? Used to make sure a "well-formed but
/// unsupported" corruption really is unsupported.
pub fn text_field_sound(text: &str, i: usize) -> bool {
    for shredder in [false, true] {
        if let Denote::Pos(p) = decode_fen(text, shredder) {
            let st = RawState::from_pos(&p);
            let d = defective_aspects(&st);
            let aspect = if i == 2 { Aspect::Rights } else { Aspect::EnPassant };
            if !d.iter().any(|(a, _)| *a == aspect) {
                return true;
            }
        }
    }
    false
}
