//! Conversions between the library's types and the reference model, plus the raw builder
//! state type (`RawState`) that generators produce and replay files store.

use crate::refmodel::*;
use cozy_chess::*;

pub fn lsq(s: Sq) -> Square {
    Square::index(s as usize)
}
pub fn msq(s: Square) -> Sq {
    s as usize as Sq
}
pub fn lfile(f: u8) -> File {
    File::index(f as usize)
}
pub fn lkind(k: Kind) -> Piece {
    match k {
        Kind::P => Piece::Pawn,
        Kind::N => Piece::Knight,
        Kind::B => Piece::Bishop,
        Kind::R => Piece::Rook,
        Kind::Q => Piece::Queen,
        Kind::K => Piece::King,
    }
}
pub fn mkind(p: Piece) -> Kind {
    match p {
        Piece::Pawn => Kind::P,
        Piece::Knight => Kind::N,
        Piece::Bishop => Kind::B,
        Piece::Rook => Kind::R,
        Piece::Queen => Kind::Q,
        Piece::King => Kind::K,
    }
}
pub fn lside(s: Side) -> Color {
    match s {
        Side::W => Color::White,
        Side::B => Color::Black,
    }
}
pub fn mside(c: Color) -> Side {
    match c {
        Color::White => Side::W,
        Color::Black => Side::B,
    }
}
pub fn lmove(m: RMove) -> Move {
    Move { from: lsq(m.from), to: lsq(m.to), promotion: m.promo.map(lkind) }
}
pub fn mmove(m: Move) -> RMove {
    RMove { from: msq(m.from), to: msq(m.to), promo: m.promotion.map(mkind) }
}

/// The model's view of a library board, read only through public accessors
/// (`piece_on`, `color_on`, `side_to_move`, `castle_rights`, `en_passant`, clocks).
pub fn pos_of_board(b: &Board) -> Pos {
    let mut p = Pos::empty();
    for s in 0..64u8 {
        let sqr = lsq(s);
        if let (Some(pc), Some(c)) = (b.piece_on(sqr), b.color_on(sqr)) {
            p.board[s as usize] = Some((mkind(pc), mside(c)));
        }
    }
    p.stm = mside(b.side_to_move());
    for side in [Side::W, Side::B] {
        let r = b.castle_rights(lside(side));
        p.rights[side.idx()] = [r.short.map(|f| f as u8), r.long.map(|f| f as u8)];
    }
    p.ep = b.en_passant().map(|f| f as u8);
    p.hm = b.halfmove_clock() as u32;
    p.fm = b.fullmove_number() as u32;
    p
}

/// Are the bitboard accessors of the board mutually consistent (piece sets disjoint, colour
/// sets disjoint, union equal; `colored_pieces`, `king`, `piece_on`, `color_on` agreeing with the
/// bitboards)? `pos_of_board` is only a faithful view when this holds.
pub fn accessors_consistent(b: &Board) -> bool {
    let mut occ = 0u64;
    for &p in &Piece::ALL {
        let bb = b.pieces(p).0;
        if bb & occ != 0 {
            return false;
        }
        occ |= bb;
    }
    let (w, k) = (b.colors(Color::White).0, b.colors(Color::Black).0);
    if !(w & k == 0 && (w | k) == occ && b.occupied().0 == occ) {
        return false;
    }
    // the derived accessors agree with the primary ones
    for &c in &Color::ALL {
        for &p in &Piece::ALL {
            if b.colored_pieces(c, p).0 != b.colors(c).0 & b.pieces(p).0 {
                return false;
            }
        }
        let kings = b.colors(c).0 & b.pieces(Piece::King).0;
        if kings.count_ones() == 1 && b.king(c) as usize != kings.trailing_zeros() as usize {
            return false;
        }
    }
    for s in 0..64u8 {
        let sqr = lsq(s);
        let bit = 1u64 << s;
        let p = Piece::ALL.iter().copied().find(|&p| b.pieces(p).0 & bit != 0);
        let c = Color::ALL.iter().copied().find(|&c| b.colors(c).0 & bit != 0);
        if b.piece_on(sqr) != p || b.color_on(sqr) != c {
            return false;
        }
    }
    true
}

/// All moves the library generates, flattened, in generation order.
pub fn lib_moves(b: &Board) -> Vec<RMove> {
    let mut out = Vec::new();
    b.generate_moves(|pm| {
        for m in pm {
            out.push(mmove(m));
        }
        false
    });
    out
}

/// Raw builder state: anything a `BoardBuilder` can hold (so possibly invalid).
#[derive(Clone, Debug, PartialEq, Eq, Hash)]
pub struct RawState {
    pub board: [Option<(Kind, Side)>; 64],
    pub stm: Side,
    pub rights: [[Option<u8>; 2]; 2],
    pub ep: Option<Sq>,
    pub hm: u8,
    pub fm: u16,
}

impl RawState {
    pub fn empty() -> RawState {
        RawState { board: [None; 64], stm: Side::W, rights: [[None; 2]; 2], ep: None, hm: 0, fm: 1 }
    }

    pub fn from_pos(p: &Pos) -> RawState {
        RawState {
            board: p.board,
            stm: p.stm,
            rights: p.rights,
            ep: p.ep.map(|f| sq(f as i32, if p.stm == Side::W { 5 } else { 2 })),
            hm: p.hm.min(255) as u8,
            fm: p.fm.min(65535) as u16,
        }
    }

    /// The model position this state denotes, when the EP square is on the rank an EP square
    /// can be on for the side to move (otherwise None: no position has such an EP square).
    pub fn to_pos(&self) -> Option<Pos> {
        let ep = match self.ep {
            None => None,
            Some(s) => {
                let want = if self.stm == Side::W { 5 } else { 2 };
                if rank_of(s) != want {
                    return None;
                }
                Some(file_of(s) as u8)
            }
        };
        Some(Pos { board: self.board, stm: self.stm, rights: self.rights, ep, hm: self.hm as u32, fm: self.fm as u32 })
    }

    pub fn builder(&self) -> BoardBuilder {
        let mut b = BoardBuilder::empty();
        for s in 0..64u8 {
            *b.square_mut(lsq(s)) = self.board[s as usize].map(|(k, c)| (lkind(k), lside(c)));
        }
        b.side_to_move = lside(self.stm);
        for side in [Side::W, Side::B] {
            *b.castle_rights_mut(lside(side)) = CastleRights {
                short: self.rights[side.idx()][0].map(lfile),
                long: self.rights[side.idx()][1].map(lfile),
            };
        }
        b.en_passant = self.ep.map(lsq);
        b.halfmove_clock = self.hm;
        b.fullmove_number = self.fm;
        b
    }

    pub fn king_sq(&self, side: Side) -> Option<Sq> {
        (0..64u8).find(|&s| self.board[s as usize] == Some((Kind::K, side)))
    }

    /// Is every right on the correct side of its king (so that Shredder notation, which
    /// infers the wing from the king file, can express the state)? Rights of a side without
    /// exactly one king are not expressible either.
    pub fn rights_expressible(&self) -> bool {
        for side in [Side::W, Side::B] {
            let r = self.rights[side.idx()];
            if r[0].is_none() && r[1].is_none() {
                continue;
            }
            let kings = self.board.iter().filter(|&&p| p == Some((Kind::K, side))).count();
            if kings != 1 {
                return false;
            }
            let kf = file_of(self.king_sq(side).unwrap());
            if matches!(r[0], Some(f) if (f as i32) <= kf) || matches!(r[1], Some(f) if (f as i32) >= kf) {
                return false;
            }
        }
        true
    }

    /// Shredder-FEN record written by the harness (not by the library) for this state.
    /// Only meaningful when `rights_expressible()`.
    pub fn shredder_record(&self) -> String {
        let p = Pos { board: self.board, stm: self.stm, rights: self.rights, ep: None, hm: self.hm as u32, fm: self.fm as u32 };
        let mut s = p.placement_text();
        s.push(' ');
        s.push(if self.stm == Side::W { 'w' } else { 'b' });
        s.push(' ');
        let mut any = false;
        for side in [Side::W, Side::B] {
            for wing in 0..2 {
                if let Some(f) = self.rights[side.idx()][wing] {
                    let c = file_char(f);
                    s.push(if side == Side::W { c.to_ascii_uppercase() } else { c });
                    any = true;
                }
            }
        }
        if !any {
            s.push('-');
        }
        s.push(' ');
        match self.ep {
            None => s.push('-'),
            Some(e) => s.push_str(&sq_name(e)),
        }
        s.push_str(&format!(" {} {}", self.hm, self.fm));
        s
    }

    /// Replay/sample text: `<placement> <w|b> <WsWlBsBl as file letters or -> <ep sq|-> <hm> <fm>`.
    pub fn text(&self) -> String {
        let p = Pos { board: self.board, stm: self.stm, rights: self.rights, ep: None, hm: 0, fm: 1 };
        let mut s = p.placement_text();
        s.push(' ');
        s.push(if self.stm == Side::W { 'w' } else { 'b' });
        s.push(' ');
        for side in 0..2 {
            for wing in 0..2 {
                s.push(self.rights[side][wing].map(file_char).unwrap_or('-'));
            }
        }
        s.push(' ');
        match self.ep {
            None => s.push('-'),
            Some(e) => s.push_str(&sq_name(e)),
        }
        s.push_str(&format!(" {} {}", self.hm, self.fm));
        s
    }

    pub fn parse(text: &str) -> Option<RawState> {
        let f: Vec<&str> = text.split(' ').collect();
        if f.len() != 6 {
            return None;
        }
        let mut st = RawState::empty();
        let ranks: Vec<&str> = f[0].split('/').collect();
        if ranks.len() != 8 {
            return None;
        }
        for (i, row) in ranks.iter().enumerate() {
            let r = 7 - i as i32;
            let mut file = 0i32;
            for c in row.chars() {
                if let Some(d) = c.to_digit(10) {
                    file += d as i32;
                } else {
                    let k = Kind::from_lower(c.to_ascii_lowercase())?;
                    if file >= 8 {
                        return None;
                    }
                    st.board[sq(file, r) as usize] = Some((k, if c.is_ascii_uppercase() { Side::W } else { Side::B }));
                    file += 1;
                }
            }
            if file != 8 {
                return None;
            }
        }
        st.stm = match f[1] {
            "w" => Side::W,
            "b" => Side::B,
            _ => return None,
        };
        let rb = f[2].as_bytes();
        if rb.len() != 4 {
            return None;
        }
        for side in 0..2 {
            for wing in 0..2 {
                let c = rb[side * 2 + wing];
                st.rights[side][wing] = if c == b'-' {
                    None
                } else if (b'a'..=b'h').contains(&c) {
                    Some(c - b'a')
                } else {
                    return None;
                };
            }
        }
        st.ep = if f[3] == "-" {
            None
        } else {
            let b = f[3].as_bytes();
            if b.len() != 2 || !(b'a'..=b'h').contains(&b[0]) || !(b'1'..=b'8').contains(&b[1]) {
                return None;
            }
            Some((b[1] - b'1') * 8 + (b[0] - b'a'))
        };
        st.hm = f[4].parse().ok()?;
        st.fm = f[5].parse().ok()?;
        Some(st)
    }
}

/// Library board from a RawState via the builder (None when the library rejects it).
pub fn build(st: &RawState) -> Option<Board> {
    st.builder().build().ok()
}

pub fn fnv(bytes: &[u8]) -> u64 {
    let mut h = 0xcbf29ce484222325u64;
    for &b in bytes {
        h ^= b as u64;
        h = h.wrapping_mul(0x100000001b3);
    }
    // final avalanche so that similar strings spread over the set
    h ^= h >> 32;
    h = h.wrapping_mul(0x9E3779B97F4A7C15);
    h ^ (h >> 29)
}

pub fn pos_hash(p: &Pos) -> u64 {
    fnv(p.to_fen(true).as_bytes())
}
