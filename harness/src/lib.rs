//! verif_core: property-based checks for cozy-chess (see /verif/DESIGN.md).
pub mod bridge;
pub mod gen;
pub mod gen2;
pub mod props;
pub mod refmodel;
pub mod runner;
pub mod keymodel;
pub mod fuzzglue;
pub mod fuzzdecode;
pub mod collide;
pub mod iterproto;
pub mod onlymove;
