//! Iterator-protocol check shared by C17 and C18: whatever `Iterator` methods a type overrides
//! (`nth`, `count`, `last`, `min`, `max`, `fold`, `size_hint`, ...), on a fresh, partially
//! consumed or exhausted iterator they must answer like the provided methods would on top of
//! plain `next()`. The model is the list plain `next()` stepping produced; a short program of
//! non-consuming steps brings the iterator into some state, then every consuming method is tried
//! on its own re-created copy of that state (the library's iterators are not `Clone`).

use std::fmt::Debug;

#[derive(Clone, Copy, Debug)]
pub enum Step {
    Next,
    Nth(usize),
    /// `by_ref().take(k).count()`
    TakeCount(usize),
    /// call `next()` until it returns `None`
    Exhaust,
}

/// Steps from a few random bits (a pure function of generated values).
pub fn steps_from(mut bits: u64, len: usize) -> Vec<Step> {
    let n = (bits & 7) as usize % 5;
    bits >>= 3;
    let mut out = Vec::new();
    for _ in 0..n {
        let sel = bits & 7;
        let k = ((bits >> 3) & 15) as usize;
        bits >>= 7;
        out.push(match sel {
            0 | 1 | 2 => Step::Next,
            3 => Step::Nth(k % 4),
            4 => Step::Nth(if len > 0 { k % (len + 2) } else { k }),
            5 => Step::TakeCount(k % 6),
            6 => Step::TakeCount(len + k),
            _ => Step::Exhaust,
        });
    }
    out
}

/// Runs the steps, comparing with the model; returns the position reached.
fn advance<I: Iterator<Item = T>, T: PartialEq + Debug + Clone>(it: &mut I, model: &[T], steps: &[Step], exact: bool, check: bool) -> Result<usize, String> {
    let mut pos = 0usize;
    let hint = |it: &I, pos: usize, after: &str| -> Result<(), String> {
        let rem = model.len() - pos;
        let (lo, hi) = it.size_hint();
        let ok = if exact { (lo, hi) == (rem, Some(rem)) } else { lo <= rem && hi.map_or(true, |h| rem <= h) };
        if ok {
            Ok(())
        } else {
            Err(format!("size_hint() = {:?} {} while {} items remain", (lo, hi), after, rem))
        }
    };
    if check {
        hint(it, pos, "on the fresh iterator")?;
    }
    for (i, st) in steps.iter().enumerate() {
        match *st {
            Step::Next => {
                let got = it.next();
                if check && got.as_ref() != model.get(pos) {
                    return Err(format!("step {} next() = {:?}, expected {:?}", i, got, model.get(pos)));
                }
                pos = (pos + 1).min(model.len());
            }
            Step::Nth(k) => {
                let got = it.nth(k);
                if check && got.as_ref() != model.get(pos + k) {
                    return Err(format!("step {} nth({}) at position {} = {:?}, expected {:?}", i, k, pos, got, model.get(pos + k)));
                }
                pos = (pos + k + 1).min(model.len());
            }
            Step::TakeCount(k) => {
                let got = it.by_ref().take(k).count();
                let want = k.min(model.len() - pos);
                if check && got != want {
                    return Err(format!("step {} by_ref().take({}).count() at position {} = {}, expected {}", i, k, pos, got, want));
                }
                pos += want;
            }
            Step::Exhaust => {
                let mut n = 0usize;
                while it.next().is_some() {
                    n += 1;
                    if n > model.len() + 4 {
                        return Err(format!("step {} next() keeps yielding past the {} items of the enumeration", i, model.len()));
                    }
                }
                if check && n != model.len() - pos {
                    return Err(format!("step {} exhausting at position {} yielded {} items, expected {}", i, pos, n, model.len() - pos));
                }
                pos = model.len();
            }
        }
        if check {
            hint(it, pos, &format!("after step {} ({:?})", i, st))?;
        }
    }
    Ok(pos)
}

/// `make` re-creates the fresh iterator; `model` is what plain `next()` yields from it.
pub fn check<I: Iterator<Item = T>, T: PartialEq + Debug + Clone>(make: &dyn Fn() -> I, model: &[T], steps: &[Step], exact: bool) -> Result<(), String> {
    let mut it = make();
    let pos = advance(&mut it, model, steps, exact, true)?;
    let rest = &model[pos..];
    let state = |what: &str| format!("{} after steps {:?} (position {} of {})", what, steps, pos, model.len());
    let at = || -> Result<I, String> {
        let mut it = make();
        advance(&mut it, model, steps, exact, false)?;
        Ok(it)
    };
    let n = at()?.count();
    if n != rest.len() {
        return Err(format!("{} = {}, {} items remain", state("count()"), n, rest.len()));
    }
    let l = at()?.last();
    if l.as_ref() != rest.last() {
        return Err(format!("{} = {:?}, expected {:?}", state("last()"), l, rest.last()));
    }
    let v: Vec<T> = at()?.collect();
    if v != rest {
        return Err(format!("{} yields {} items, expected the {} remaining ones", state("collect()"), v.len(), rest.len()));
    }
    let f = at()?.fold(0usize, |a, _| a + 1);
    if f != rest.len() {
        return Err(format!("{} visits {} items, {} remain", state("fold()"), f, rest.len()));
    }
    let mut visited = 0usize;
    at()?.for_each(|_| visited += 1);
    if visited != rest.len() {
        return Err(format!("{} visits {} items, {} remain", state("for_each()"), visited, rest.len()));
    }
    let e = at()?.nth(rest.len());
    if e.is_some() {
        return Err(format!("{} = {:?}, expected None", state(&format!("nth({})", rest.len())), e));
    }
    if !rest.is_empty() {
        let e = at()?.nth(rest.len() - 1);
        if e.as_ref() != rest.last() {
            return Err(format!("{} = {:?}, expected {:?}", state(&format!("nth({})", rest.len() - 1)), e, rest.last()));
        }
    }
    let p = at()?.position(|_| false);
    if p.is_some() {
        return Err(format!("{} = {:?}", state("position(|_| false)"), p));
    }
    let a = at()?.all(|_| true);
    if !a {
        return Err(state("all(|_| true) = false"));
    }
    let sk: Vec<T> = at()?.skip(1).step_by(2).collect();
    let want: Vec<T> = rest.iter().skip(1).step_by(2).cloned().collect();
    if sk != want {
        return Err(format!("{} yields {} items, expected {}", state("skip(1).step_by(2)"), sk.len(), want.len()));
    }
    Ok(())
}

/// Additionally `min()` / `max()` for item types with an order.
pub fn check_ord<I: Iterator<Item = T>, T: Ord + Debug + Clone>(make: &dyn Fn() -> I, model: &[T], steps: &[Step], exact: bool) -> Result<(), String> {
    check(make, model, steps, exact)?;
    let mut it = make();
    let pos = advance(&mut it, model, steps, exact, false)?;
    let rest = &model[pos..];
    let mx = it.max();
    if mx.as_ref() != rest.iter().max() {
        return Err(format!("max() after steps {:?} (position {} of {}) = {:?}, expected {:?}", steps, pos, model.len(), mx, rest.iter().max()));
    }
    let mut it = make();
    advance(&mut it, model, steps, exact, false)?;
    let mn = it.min();
    if mn.as_ref() != rest.iter().min() {
        return Err(format!("min() after steps {:?} (position {} of {}) = {:?}, expected {:?}", steps, pos, model.len(), mn, rest.iter().min()));
    }
    Ok(())
}
