//! Shared run infrastructure: statistics, sharded proptest driver, evidence and replay files,
//! known-findings matcher.

use proptest::strategy::{Strategy, ValueTree};
use proptest::test_runner::{Config, RngSeed, TestCaseError, TestError, TestRunner};
use serde_json::{json, Value};
use std::cell::{Cell, RefCell};
use std::collections::{BTreeMap, BTreeSet, HashSet};
use std::panic::{catch_unwind, AssertUnwindSafe};
use std::path::PathBuf;
use std::time::Instant;

pub const SHARDS: usize = 16;

#[derive(Clone, Copy, PartialEq, Eq, Debug)]
pub enum Tier {
    Quick,
    Thorough,
}

impl Tier {
    pub fn name(self) -> &'static str {
        match self {
            Tier::Quick => "quick",
            Tier::Thorough => "thorough",
        }
    }
    /// Case-count multiplier of the thorough tier.
    pub fn scale(self, quick: u32, factor: u32) -> u32 {
        // VCHECK_CASES_DIV shrinks the workload for the (slow) coverage-instrumented build used by
        // tools/coverage.sh; it is never set by the registered commands.
        let div = std::env::var("VCHECK_CASES_DIV").ok().and_then(|s| s.parse::<u32>().ok()).unwrap_or(1).max(1);
        let n = match self {
            Tier::Quick => quick,
            Tier::Thorough => quick.saturating_mul(factor),
        };
        (n / div).max(64)
    }
}

#[derive(Clone, Debug)]
pub struct Ctx {
    pub id: &'static str,
    pub tier: Tier,
    pub seed: u64,
    /// Name of the build configuration this binary was compiled in.
    pub build: &'static str,
}

pub fn build_name() -> &'static str {
    if cfg!(feature = "pext") {
        "checked-pext"
    } else if cfg!(debug_assertions) {
        "checked"
    } else {
        "unchecked"
    }
}

/// A violation of the property on one concrete case.
#[derive(Clone, Debug)]
pub struct Failure {
    /// Human readable description (what was expected, what was observed).
    pub msg: String,
    /// Signature used to match known findings (property-specific, stable).
    pub sig: String,
    /// Replay file body: `key=value` lines describing the concrete case.
    pub replay: Vec<(String, String)>,
}

impl Failure {
    pub fn new(sig: &str, msg: String) -> Failure {
        Failure { msg, sig: sig.to_string(), replay: Vec::new() }
    }
    pub fn with(mut self, k: &str, v: impl Into<String>) -> Failure {
        self.replay.push((k.to_string(), v.into()));
        self
    }
}

pub type CaseResult = Result<(), Failure>;

#[derive(Default, Debug)]
pub struct Stats {
    pub evaluations: u64,
    pub nontrivial: HashSet<u64>,
    /// Non-trivial cases that are distinct by construction (enumerations), counted not hashed.
    pub nontrivial_enumerated: u64,
    pub classes: BTreeMap<String, u64>,
    pub counters: BTreeMap<String, u64>,
    pub samples: Vec<String>,
    pub sample_cap: usize,
    pub sample_every: u64,
    sample_tick: u64,
}

impl Stats {
    pub fn new() -> Stats {
        Stats { sample_cap: 8, sample_every: 97, ..Default::default() }
    }
    pub fn eval(&mut self, n: u64) {
        self.evaluations += n;
    }
    pub fn class(&mut self, name: &str) {
        *self.classes.entry(name.to_string()).or_insert(0) += 1;
    }
    pub fn class_if(&mut self, cond: bool, name: &str) {
        if cond {
            self.class(name);
        }
    }
    pub fn count(&mut self, name: &str, n: u64) {
        *self.counters.entry(name.to_string()).or_insert(0) += n;
    }
    pub fn distinct_nontrivial(&self) -> u64 {
        self.nontrivial.len() as u64 + self.nontrivial_enumerated
    }
    pub fn nontrivial(&mut self, hash: u64) {
        self.nontrivial.insert(hash);
    }
    /// Offer a sample; a few are kept, spread over the run.
    pub fn sample(&mut self, f: impl FnOnce() -> String) {
        self.sample_tick += 1;
        if self.samples.len() < self.sample_cap && (self.sample_tick % self.sample_every == 1 || self.sample_every <= 1) {
            self.samples.push(f());
        }
    }
    pub fn merge(&mut self, other: Stats) {
        self.evaluations += other.evaluations;
        self.nontrivial.extend(other.nontrivial);
        self.nontrivial_enumerated += other.nontrivial_enumerated;
        for (k, v) in other.classes {
            *self.classes.entry(k).or_insert(0) += v;
        }
        for (k, v) in other.counters {
            *self.counters.entry(k).or_insert(0) += v;
        }
        self.samples.extend(other.samples);
    }
}

pub fn splitmix(mut x: u64) -> u64 {
    x = x.wrapping_add(0x9E3779B97F4A7C15);
    let mut z = x;
    z = (z ^ (z >> 30)).wrapping_mul(0xBF58476D1CE4E5B9);
    z = (z ^ (z >> 27)).wrapping_mul(0x94D049BB133111EB);
    z ^ (z >> 31)
}

pub fn shard_seed(seed: u64, id: &str, part: &str, shard: usize) -> u64 {
    let mut h = splitmix(seed ^ 0xC0FFEE);
    for b in id.bytes().chain(part.bytes()) {
        h = splitmix(h ^ b as u64);
    }
    splitmix(h ^ (shard as u64) << 32)
}

/// Deterministic small PRNG for enumerations that need "random other bits" (a pure function
/// of the seed; never used inside proptest-driven properties).
pub struct Mix(pub u64);
impl Mix {
    pub fn next(&mut self) -> u64 {
        self.0 = self.0.wrapping_add(0x9E3779B97F4A7C15);
        let mut z = self.0;
        z = (z ^ (z >> 30)).wrapping_mul(0xBF58476D1CE4E5B9);
        z = (z ^ (z >> 27)).wrapping_mul(0x94D049BB133111EB);
        z ^ (z >> 31)
    }
}

static HARNESS_FAULTS: std::sync::Mutex<Vec<String>> = std::sync::Mutex::new(Vec::new());

/// Run harness-side generator code; a panic there is a fault of the harness (reported as
/// infrastructure, exit 2), never a violation of the property.
pub fn guard<T>(what: &str, f: impl FnOnce() -> T) -> Option<T> {
    match catch_unwind(AssertUnwindSafe(f)) {
        Ok(v) => Some(v),
        Err(p) => {
            let mut g = HARNESS_FAULTS.lock().unwrap_or_else(|e| e.into_inner());
            if g.len() < 5 {
                g.push(format!("harness fault in {}: {}", what, panic_text(p)));
            }
            None
        }
    }
}

pub fn harness_faults() -> Vec<String> {
    HARNESS_FAULTS.lock().unwrap_or_else(|e| e.into_inner()).clone()
}

pub fn panic_text(p: Box<dyn std::any::Any + Send>) -> String {
    if let Some(s) = p.downcast_ref::<&str>() {
        s.to_string()
    } else if let Some(s) = p.downcast_ref::<String>() {
        s.clone()
    } else {
        "<non-string panic>".to_string()
    }
}

/// Silence the default panic hook: several properties provoke panics on purpose
/// (`Board::play` on illegal moves, `Square::offset` out of range) and catch them.
pub fn quiet_panics() {
    std::panic::set_hook(Box::new(|_| {}));
}

/// Result of one part (one generator family) of a property run.
pub struct PartResult {
    pub stats: Stats,
    pub failures: Vec<Failure>,
    pub known_hits: BTreeMap<String, u64>,
}

impl PartResult {
    pub fn empty() -> PartResult {
        PartResult { stats: Stats::new(), failures: Vec::new(), known_hits: BTreeMap::new() }
    }
    pub fn merge(&mut self, o: PartResult) {
        self.stats.merge(o.stats);
        self.failures.extend(o.failures);
        for (k, v) in o.known_hits {
            *self.known_hits.entry(k).or_insert(0) += v;
        }
    }
}

/// Drive `test` with proptest over `strategy`, split over SHARDS threads.
///
/// `test` is a pure function of the generated value; it records statistics in the `Stats`
/// it is given and returns `Err(Failure)` when the property is violated on that value. A panic
/// inside `test` is converted into a failure. A failure whose signature is an *open* known
/// finding is counted and otherwise ignored, so that the search continues behind it.
pub fn run_prop<S, F, T>(ctx: &Ctx, part: &str, cases_total: u32, make_strategy: F, test: T) -> PartResult
where
    S: Strategy,
    S::Value: Clone + std::fmt::Debug,
    F: Fn() -> S + Sync,
    T: Fn(&S::Value, &mut Stats) -> CaseResult + Sync,
{
    let known = known_open_signatures(ctx.id);
    let per_shard = (cases_total as usize + SHARDS - 1) / SHARDS;
    let results: Vec<PartResult> = std::thread::scope(|scope| {
        let handles: Vec<_> = (0..SHARDS)
            .map(|shard| {
                let known = &known;
                let make_strategy = &make_strategy;
                let test = &test;
                std::thread::Builder::new()
                    .stack_size(64 << 20)
                    .spawn_scoped(scope, move || {
                        let seed = shard_seed(ctx.seed, ctx.id, part, shard);
                        let mut cfg = Config::default();
                        cfg.cases = per_shard as u32;
                        cfg.failure_persistence = None;
                        cfg.rng_seed = RngSeed::Fixed(seed);
                        cfg.max_shrink_iters = 20_000;
                        cfg.max_global_rejects = 1_000_000;
                        cfg.verbose = 0;
                        let mut runner = TestRunner::new(cfg);
                        let stats = RefCell::new(Stats::new());
                        let failed = Cell::new(false);
                        let known_hits: RefCell<BTreeMap<String, u64>> = RefCell::new(BTreeMap::new());
                        let eval = |v: &S::Value, st: &mut Stats| -> CaseResult {
                            match catch_unwind(AssertUnwindSafe(|| test(v, st))) {
                                Ok(r) => r,
                                Err(p) => Err(Failure::new("panic-in-check", format!("panic while evaluating the case: {}", panic_text(p)))
                                    .with("case_debug", format!("{:?}", v))),
                            }
                        };
                        let strategy = make_strategy();
                        let outcome = runner.run(&strategy, |v| {
                            let r = if failed.get() {
                                // shrinking: evaluate, do not count
                                let mut scratch = Stats::new();
                                eval(&v, &mut scratch)
                            } else {
                                eval(&v, &mut stats.borrow_mut())
                            };
                            match r {
                                Ok(()) => Ok(()),
                                Err(f) => {
                                    if known.contains(&f.sig) {
                                        if !failed.get() {
                                            *known_hits.borrow_mut().entry(f.sig.clone()).or_insert(0) += 1;
                                        }
                                        Ok(())
                                    } else {
                                        failed.set(true);
                                        Err(TestCaseError::fail(f.sig))
                                    }
                                }
                            }
                        });
                        let mut failures = Vec::new();
                        match outcome {
                            Ok(()) => {}
                            Err(TestError::Fail(_, minimal)) => {
                                let mut scratch = Stats::new();
                                match eval(&minimal, &mut scratch) {
                                    Err(f) => failures.push(f),
                                    Ok(()) => failures.push(Failure::new(
                                        "non-reproducible",
                                        format!("shrunk case passed on re-evaluation: {:?}", minimal),
                                    )),
                                }
                            }
                            Err(TestError::Abort(reason)) => {
                                failures.push(Failure::new("infrastructure", format!("proptest aborted: {}", reason)));
                            }
                        }
                        PartResult { stats: stats.into_inner(), failures, known_hits: known_hits.into_inner() }
                    })
                    .expect("spawn")
            })
            .collect();
        handles.into_iter().map(|h| h.join().expect("shard thread")).collect()
    });
    let mut total = PartResult::empty();
    for (i, mut r) in results.into_iter().enumerate() {
        // at most one sample per shard, four per part, taken from different shards
        let keep = if i % 4 == 0 { 1 } else { 0 };
        let n = r.stats.samples.len();
        if n > 0 {
            let pick = r.stats.samples.swap_remove((i / 4) % n);
            r.stats.samples.clear();
            if keep == 1 {
                r.stats.samples.push(pick);
            }
        }
        total.merge(r);
    }
    total
}

/// Run `work(shard, &mut Stats) -> Vec<Failure>` on SHARDS threads (for enumerations).
pub fn run_sharded<W>(work: W) -> PartResult
where
    W: Fn(usize, &mut Stats) -> Vec<Failure> + Sync,
{
    let results: Vec<PartResult> = std::thread::scope(|scope| {
        let handles: Vec<_> = (0..SHARDS)
            .map(|shard| {
                let work = &work;
                std::thread::Builder::new()
                    .stack_size(64 << 20)
                    .spawn_scoped(scope, move || {
                        let mut stats = Stats::new();
                        let failures = match catch_unwind(AssertUnwindSafe(|| work(shard, &mut stats))) {
                            Ok(f) => f,
                            Err(p) => vec![Failure::new("panic-in-check", format!("panic in enumeration shard {}: {}", shard, panic_text(p)))],
                        };
                        PartResult { stats, failures, known_hits: BTreeMap::new() }
                    })
                    .expect("spawn")
            })
            .collect();
        handles.into_iter().map(|h| h.join().expect("shard thread")).collect()
    });
    let mut total = PartResult::empty();
    for (i, mut r) in results.into_iter().enumerate() {
        // at most one sample per shard, four per part, taken from different shards
        let keep = if i % 4 == 0 { 1 } else { 0 };
        let n = r.stats.samples.len();
        if n > 0 {
            let pick = r.stats.samples.swap_remove((i / 4) % n);
            r.stats.samples.clear();
            if keep == 1 {
                r.stats.samples.push(pick);
            }
        }
        total.merge(r);
    }
    total
}

/// Generate one value from a strategy deterministically (used by generator health checks).
pub fn sample_values<S: Strategy>(strategy: &S, seed: u64, n: usize) -> Vec<S::Value> {
    let mut cfg = Config::default();
    cfg.failure_persistence = None;
    cfg.rng_seed = RngSeed::Fixed(seed);
    let mut runner = TestRunner::new(cfg);
    (0..n).filter_map(|_| strategy.new_tree(&mut runner).ok().map(|t| t.current())).collect()
}

// ------------------------------------------------------------------------------------------
// Known findings

pub fn verif_root() -> PathBuf {
    if let Ok(p) = std::env::var("VERIF_ROOT") {
        return PathBuf::from(p);
    }
    PathBuf::from("/verif")
}

#[derive(Clone, Debug)]
pub struct KnownFinding {
    pub property: String,
    pub signature: String,
    pub status: String,
    pub what: String,
}

pub fn known_findings() -> Vec<KnownFinding> {
    let path = verif_root().join("known_findings.json");
    let Ok(text) = std::fs::read_to_string(&path) else { return Vec::new() };
    let Ok(v) = serde_json::from_str::<Value>(&text) else { return Vec::new() };
    let mut out = Vec::new();
    if let Some(arr) = v.get("findings").and_then(|a| a.as_array()) {
        for f in arr {
            out.push(KnownFinding {
                property: f.get("property").and_then(|s| s.as_str()).unwrap_or("").to_string(),
                signature: f.get("signature").and_then(|s| s.as_str()).unwrap_or("").to_string(),
                status: f.get("status").and_then(|s| s.as_str()).unwrap_or("").to_string(),
                what: f.get("what").and_then(|s| s.as_str()).unwrap_or("").to_string(),
            });
        }
    }
    out
}

/// Signatures of *open* findings for a property: only those are tolerated. Entries with
/// status "fixed" suppress nothing.
pub fn known_open_signatures(id: &str) -> BTreeSet<String> {
    known_findings().into_iter().filter(|f| f.property == id && f.status == "open").map(|f| f.signature).collect()
}

// ------------------------------------------------------------------------------------------
// Replay files

pub fn write_replay(id: &str, f: &Failure, index: usize) -> PathBuf {
    let dir = verif_root().join("replays");
    let _ = std::fs::create_dir_all(&dir);
    let path = dir.join(format!("{}-{:016x}-{}.replay", id, crate::bridge::fnv(format!("{:?}{}", f.replay, f.sig).as_bytes()), index));
    let mut body = String::new();
    body.push_str(&format!("property={}\n", id));
    body.push_str(&format!("signature={}\n", f.sig));
    for (k, v) in &f.replay {
        body.push_str(&format!("{}={}\n", k, v.replace('\\', "\\\\").replace('\n', "\\n")));
    }
    body.push_str(&format!("# {}\n", f.msg.replace('\n', "\n# ")));
    let _ = std::fs::write(&path, body);
    path
}

pub type ReplayMap = BTreeMap<String, String>;

pub fn read_replay(path: &str) -> Result<ReplayMap, String> {
    let text = std::fs::read_to_string(path).map_err(|e| format!("cannot read {}: {}", path, e))?;
    let mut m = BTreeMap::new();
    for line in text.lines() {
        if line.starts_with('#') || line.is_empty() {
            continue;
        }
        if let Some((k, v)) = line.split_once('=') {
            let mut out = String::new();
            let mut it = v.chars();
            while let Some(c) = it.next() {
                if c == '\\' {
                    match it.next() {
                        Some('n') => out.push('\n'),
                        Some('\\') => out.push('\\'),
                        Some(o) => {
                            out.push('\\');
                            out.push(o)
                        }
                        None => out.push('\\'),
                    }
                } else {
                    out.push(c);
                }
            }
            m.insert(k.to_string(), out);
        }
    }
    Ok(m)
}

pub fn hex_encode(s: &[u8]) -> String {
    s.iter().map(|b| format!("{:02x}", b)).collect()
}
pub fn hex_decode(s: &str) -> Option<Vec<u8>> {
    if s.len() % 2 != 0 {
        return None;
    }
    (0..s.len() / 2).map(|i| u8::from_str_radix(&s[2 * i..2 * i + 2], 16).ok()).collect()
}

// ------------------------------------------------------------------------------------------
// Evidence + final verdict

pub struct Report {
    pub ctx: Ctx,
    pub rule: String,
    pub assumptions: Vec<String>,
    pub exhaustive: Option<bool>,
    pub exhaustive_note: Option<String>,
    pub result: PartResult,
    pub extra: BTreeMap<String, Value>,
    /// Classes that must be non-empty for the run to count as healthy.
    pub required_classes: Vec<&'static str>,
    pub started: Instant,
}

impl Report {
    pub fn new(ctx: &Ctx) -> Report {
        Report {
            ctx: ctx.clone(),
            rule: String::new(),
            assumptions: Vec::new(),
            exhaustive: None,
            exhaustive_note: None,
            result: PartResult::empty(),
            extra: BTreeMap::new(),
            required_classes: Vec::new(),
            started: Instant::now(),
        }
    }

    pub fn add(&mut self, part: PartResult) {
        self.result.merge(part);
    }

    pub fn to_json(&self, violations: usize) -> Value {
        let st = &self.result.stats;
        let mut coverage = serde_json::Map::new();
        coverage.insert("evaluations".into(), json!(st.evaluations));
        coverage.insert("distinct_nontrivial".into(), json!(st.nontrivial.len() as u64 + st.nontrivial_enumerated));
        coverage.insert("rule".into(), json!(self.rule));
        coverage.insert("samples".into(), json!(st.samples));
        coverage.insert("classes".into(), json!(st.classes));
        coverage.insert("counters".into(), json!(st.counters));
        coverage.insert("build".into(), json!(self.ctx.build));
        if let Some(e) = self.exhaustive {
            coverage.insert("exhaustive".into(), json!(e));
        }
        if let Some(n) = &self.exhaustive_note {
            coverage.insert("exhaustive_scope".into(), json!(n));
        }
        coverage.insert("excluded_known".into(), json!(self.result.known_hits));
        for (k, v) in &self.extra {
            coverage.insert(k.clone(), v.clone());
        }
        json!({
            "property_id": self.ctx.id,
            "tier": self.ctx.tier.name(),
            // reported as a signed 64-bit value so that every JSON reader sees an integer
            "seed": if self.ctx.seed > i64::MAX as u64 { (self.ctx.seed as i64) as i128 as i64 } else { self.ctx.seed as i64 },
            "level": "exploration",
            "coverage": Value::Object(coverage),
            "assumptions": self.assumptions,
            "wall_s": self.started.elapsed().as_secs_f64(),
            "violations": violations,
        })
    }
}

/// Deduplicate failures by signature (keeping the first of each), dropping known-open ones.
pub fn distinct_failures(fs: &[Failure]) -> Vec<Failure> {
    let mut seen = BTreeSet::new();
    let mut out = Vec::new();
    for f in fs {
        if seen.insert(f.sig.clone()) {
            out.push(f.clone());
        }
    }
    out
}
