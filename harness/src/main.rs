//! vcheck <ID> <quick|thorough> [--sub <json-out>]
//! vcheck <ID> --replay <file>
//! vcheck selftest
use serde_json::{json, Value};
use std::process::{exit, Command};
use verif_core::runner::*;
use verif_core::{props, refmodel};

fn usage() -> ! {
    eprintln!("usage: vcheck <ID> <quick|thorough> [--sub <out.json>] | vcheck <ID> --replay <file> | vcheck selftest");
    exit(2)
}

fn failure_json(f: &Failure) -> Value {
    json!({"sig": f.sig, "msg": f.msg, "replay": f.replay})
}

fn failure_from_json(v: &Value, build: &str) -> Failure {
    let mut f = Failure::new(v["sig"].as_str().unwrap_or("?"), format!("[{}] {}", build, v["msg"].as_str().unwrap_or("?")));
    if let Some(arr) = v["replay"].as_array() {
        for kv in arr {
            if let (Some(k), Some(val)) = (kv[0].as_str(), kv[1].as_str()) {
                f.replay.push((k.to_string(), val.to_string()));
            }
        }
    }
    f.replay.push(("build".into(), build.into()));
    f
}

fn main() {
    let args: Vec<String> = std::env::args().skip(1).collect();
    if args.is_empty() {
        usage();
    }
    quiet_panics();
    if args[0] == "selftest" {
        match refmodel::self_test(4) {
            Ok(n) => {
                println!("reference model self-test passed ({} perft nodes compared with published values)", n);
                exit(0)
            }
            Err(e) => {
                eprintln!("INFRASTRUCTURE: reference model self-test failed: {}", e);
                exit(2)
            }
        }
    }
    if args[0] == "collide" {
        // diagnostic: time the collision searches
        let m = verif_core::keymodel::KeyModel::extract().expect("key model");
        let t = std::time::Instant::now();
        let pairs = verif_core::collide::colour_collision_pairs(&m, 8);
        println!("colour-collision pairs: {} in {:.1}s", pairs.len(), t.elapsed().as_secs_f64());
        for (a, b) in pairs.iter().take(3) {
            let (ba, bb) = (verif_core::bridge::build(a).unwrap(), verif_core::bridge::build(b).unwrap());
            println!("  {:#} | {:#} | hashes {:016x} {:016x} eq={} same_position={}", ba, bb, ba.hash(), bb.hash(), ba == bb, ba.same_position(&bb));
        }
        if args.get(1).map(|s| s.as_str()) == Some("colour") {
            exit(0);
        }
        let t = std::time::Instant::now();
        let pairs = verif_core::collide::kind_collision_pairs(&m, 8);
        println!("kind-collision pairs: {} in {:.1}s", pairs.len(), t.elapsed().as_secs_f64());
        for (a, b) in pairs.iter().take(3) {
            let (ba, bb) = (verif_core::bridge::build(a).unwrap(), verif_core::bridge::build(b).unwrap());
            println!("  {:#} | {:#} | hashes {:016x} {:016x} eq={} same_position={}", ba, bb, ba.hash(), bb.hash(), ba == bb, ba.same_position(&bb));
        }
        let t = std::time::Instant::now();
        let zs = verif_core::collide::boards_with_hash(&m, 0, 4);
        println!("boards with hash 0: {} in {:.1}s", zs.len(), t.elapsed().as_secs_f64());
        for z in zs.iter().take(3) {
            let b = verif_core::bridge::build(z).unwrap();
            println!("  {:#} hash {:016x}", b, b.hash());
        }
        exit(0);
    }
    if args.len() < 2 {
        usage();
    }
    let id: &'static str = match props::canonical_id(&args[0]) {
        Some(i) => i,
        None => {
            eprintln!("unknown property {}", args[0]);
            exit(2)
        }
    };
    if args[1] == "--replay" {
        let path = args.get(2).unwrap_or_else(|| usage());
        let map = match read_replay(path) {
            Ok(m) => m,
            Err(e) => {
                eprintln!("INFRASTRUCTURE: {}", e);
                exit(2)
            }
        };
        if let Some(b) = map.get("build") {
            if b != build_name() && std::env::var("VCHECK_REPLAY_ANY_BUILD").is_err() {
                println!("replay skipped in build {} (recorded in build {})", build_name(), b);
                exit(0);
            }
        }
        match std::panic::catch_unwind(|| props::replay(id, &map)) {
            Ok(Ok(())) => {
                println!("replay: property {} holds on the recorded case [{}]", id, build_name());
                exit(0)
            }
            Ok(Err(f)) => {
                println!("replay: {}", f.msg);
                println!("VIOLATION property={} replay={}", id, path);
                exit(1)
            }
            Err(p) => {
                println!("replay: panic: {}", panic_text(p));
                println!("VIOLATION property={} replay={}", id, path);
                exit(1)
            }
        }
    }
    let tier = match args[1].as_str() {
        "quick" => Tier::Quick,
        "thorough" => Tier::Thorough,
        _ => usage(),
    };
    let seed: u64 = std::env::var("VERIF_SEED").ok().and_then(|s| s.trim().parse::<i128>().ok()).map(|v| v as u64).unwrap_or(1);
    let sub_out = if args.get(2).map(|s| s.as_str()) == Some("--sub") { args.get(3).cloned() } else { None };
    let ctx = Ctx { id, tier, seed, build: build_name() };

    // The oracle is validated against published perft numbers before it is used.
    if let Err(e) = refmodel::self_test(3) {
        eprintln!("INFRASTRUCTURE: reference model self-test failed: {}", e);
        exit(2);
    }

    let mut report = props::run(&ctx);
    // Replay tier: curated minimal cases of defects that were repaired (see known_findings.json);
    // they bypass the generators, so a returning defect is reported deterministically.
    if let Ok(rd) = std::fs::read_dir(verif_root().join("regress")) {
        let mut files: Vec<_> = rd.filter_map(|e| e.ok()).map(|e| e.path()).filter(|p| p.file_name().and_then(|n| n.to_str()).map(|n| n.starts_with(id) && n.ends_with(".replay")).unwrap_or(false)).collect();
        files.sort();
        for f in files {
            let Ok(map) = read_replay(f.to_str().unwrap()) else { continue };
            report.result.stats.eval(1);
            report.result.stats.count("regression-replays", 1);
            let r = std::panic::catch_unwind(|| props::replay(id, &map));
            let fail = match r {
                Ok(Ok(())) => None,
                Ok(Err(f)) => Some(f),
                Err(p) => Some(Failure::new("panic-in-replay", panic_text(p))),
            };
            if let Some(mut fl) = fail {
                fl.msg = format!("regression case {} fails again: {}", f.display(), fl.msg);
                if fl.replay.is_empty() {
                    for (k, v) in &map {
                        if k != "property" && k != "signature" {
                            fl.replay.push((k.clone(), v.clone()));
                        }
                    }
                }
                report.result.failures.push(fl);
            }
        }
    }
    let mut health_errors: Vec<String> = harness_faults();
    for c in &report.required_classes {
        if report.result.stats.classes.get(*c).copied().unwrap_or(0) == 0 {
            health_errors.push(format!("generator health: advertised class '{}' has no member in this run", c));
        }
    }

    if let Some(out) = sub_out {
        // Sub-run for another build configuration: hand everything to the orchestrator.
        let fails: Vec<Value> = distinct_failures(&report.result.failures).iter().map(failure_json).collect();
        let v = json!({
            "build": ctx.build,
            "evidence": report.to_json(fails.len()),
            "failures": fails,
            "health_errors": health_errors,
        });
        std::fs::write(&out, serde_json::to_string_pretty(&v).unwrap()).expect("write sub report");
        exit(0);
    }

    // Other build configurations this property is also decided in.
    let mut failures = distinct_failures(&report.result.failures);
    let mut builds = vec![json!({"build": ctx.build, "evaluations": report.result.stats.evaluations, "distinct_nontrivial": report.result.stats.distinct_nontrivial()})];
    for (build, var) in [("checked-pext", "VCHECK_BIN_PEXT"), ("unchecked", "VCHECK_BIN_UNCHECKED")] {
        let Some((_, sub_tier)) = props::sub_runs(id, tier).into_iter().find(|(b, _)| *b == build) else { continue };
        let Ok(bin) = std::env::var(var) else {
            health_errors.push(format!("build {} required for {} but {} is not set", build, id, var));
            continue;
        };
        let out = verif_root().join("work").join(format!("sub-{}-{}-{}.json", id, tier.name(), build));
        let _ = std::fs::create_dir_all(out.parent().unwrap());
        let _ = std::fs::remove_file(&out);
        let status = Command::new(&bin).args([id, sub_tier.name(), "--sub", out.to_str().unwrap()]).env("VERIF_SEED", seed.to_string()).status();
        match status {
            Ok(s) if s.success() => {}
            other => {
                health_errors.push(format!("sub-run in build {} did not complete: {:?}", build, other));
                continue;
            }
        }
        let Ok(text) = std::fs::read_to_string(&out) else {
            health_errors.push(format!("sub-run in build {} wrote no report", build));
            continue;
        };
        let v: Value = serde_json::from_str(&text).unwrap_or(Value::Null);
        let cov = &v["evidence"]["coverage"];
        builds.push(json!({"build": build, "tier": sub_tier.name(), "evaluations": cov["evaluations"], "distinct_nontrivial": cov["distinct_nontrivial"], "classes": cov["classes"], "counters": cov["counters"], "wall_s": v["evidence"]["wall_s"]}));
        report.result.stats.evaluations += cov["evaluations"].as_u64().unwrap_or(0);
        if let Some(arr) = v["failures"].as_array() {
            for f in arr {
                failures.push(failure_from_json(f, build));
            }
        }
        if let Some(arr) = v["health_errors"].as_array() {
            for h in arr {
                health_errors.push(format!("[{}] {}", build, h.as_str().unwrap_or("?")));
            }
        }
    }
    report.extra.insert("builds".into(), Value::Array(builds));

    // Known findings that are still open are announced on every run.
    for k in known_findings() {
        if k.property == id && k.status == "open" {
            println!("KNOWN-FINDING: property={} {} [{}]", id, k.what, k.signature);
        }
    }

    let infra: Vec<&Failure> = failures.iter().filter(|f| f.sig == "infrastructure").collect();
    for f in &infra {
        health_errors.push(f.msg.clone());
    }
    let violations: Vec<&Failure> = failures.iter().filter(|f| f.sig != "infrastructure").collect();

    let evidence = report.to_json(violations.len());
    let ev_path = verif_root().join("evidence").join(format!("{}.json", id));
    let _ = std::fs::create_dir_all(ev_path.parent().unwrap());
    std::fs::write(&ev_path, serde_json::to_string_pretty(&evidence).unwrap()).expect("write evidence");

    let st = &report.result.stats;
    println!(
        "{} {} seed={} evaluations={} distinct_nontrivial={} wall={:.1}s",
        id,
        tier.name(),
        seed,
        st.evaluations,
        st.distinct_nontrivial(),
        report.started.elapsed().as_secs_f64()
    );
    for (i, f) in violations.iter().enumerate() {
        let path = write_replay(id, f, i);
        println!("violation detail: [{}] {}", f.sig, f.msg.lines().next().unwrap_or(""));
        println!("VIOLATION property={} replay={}", id, path.display());
    }
    if !violations.is_empty() {
        exit(1);
    }
    if !health_errors.is_empty() {
        for h in &health_errors {
            eprintln!("INFRASTRUCTURE: {}", h);
        }
        exit(2);
    }
    exit(0);
}
