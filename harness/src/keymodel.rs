//! XOR-key model of the position hash, extracted through the public API only.
//!
//! Assumption (checked on every board C10 visits): hash = XOR of one key per feature, the
//! features being (colour, kind, square) of each piece, black-to-move, (colour, rook file) of
//! each castling right and the EP file. Single king keys are unobservable (every board has
//! exactly one king per colour), so kings are handled through pseudo keys relative to a
//! reference square: K_c(s) = key(c, K, s) ^ key(c, K, ref_c).

use crate::bridge::*;
use crate::refmodel::*;
use std::collections::BTreeSet;

#[derive(Clone, Copy, PartialEq, Eq, Hash, Debug, PartialOrd, Ord)]
pub enum Feature {
    Piece(Side, Kind, Sq),
    /// (colour, wing: 0 short / 1 long, rook file)
    Castle(Side, u8, u8),
    Ep(u8),
    BlackToMove,
}

impl Feature {
    pub fn text(&self) -> String {
        match self {
            Feature::Piece(s, k, q) => format!("{}{}@{}", if *s == Side::W { 'w' } else { 'b' }, k.upper(), sq_name(*q)),
            Feature::Castle(s, w, f) => format!("{}castle-{}:{}", if *s == Side::W { 'w' } else { 'b' }, if *w == 0 { "short" } else { "long" }, file_char(*f)),
            Feature::Ep(f) => format!("ep:{}", file_char(*f)),
            Feature::BlackToMove => "black-to-move".into(),
        }
    }
}

pub fn features(p: &Pos) -> BTreeSet<Feature> {
    let mut s = BTreeSet::new();
    for q in 0..64u8 {
        if let Some((k, c)) = p.board[q as usize] {
            s.insert(Feature::Piece(c, k, q));
        }
    }
    if p.stm == Side::B {
        s.insert(Feature::BlackToMove);
    }
    for side in [Side::W, Side::B] {
        for wing in 0..2 {
            if let Some(f) = p.rights[side.idx()][wing] {
                s.insert(Feature::Castle(side, wing as u8, f));
            }
        }
    }
    if let Some(f) = p.ep {
        s.insert(Feature::Ep(f));
    }
    s
}

pub struct KeyModel {
    pub base: u64,
    pub ref_sq: [Sq; 2],
    pub king: [[u64; 64]; 2],
    pub piece: Vec<Vec<Vec<Option<u64>>>>, // [side][kind][sq]
    pub castle: [[Option<u64>; 8]; 2],
    /// [side][wing][file]
    pub castle_by_wing: [[[Option<u64>; 8]; 2]; 2],
    pub castle_wing_independent: bool,
    pub ep: [Option<u64>; 8],
    pub side: u64,
    pub notes: Vec<String>,
}

fn hash_of(st: &RawState) -> Option<u64> {
    build(st).map(|b| b.hash())
}

fn kings_only(wk: Sq, bk: Sq, stm: Side) -> RawState {
    let mut st = RawState::empty();
    st.board[wk as usize] = Some((Kind::K, Side::W));
    st.board[bk as usize] = Some((Kind::K, Side::B));
    st.stm = stm;
    st
}

fn adjacent(a: Sq, b: Sq) -> bool {
    (file_of(a) - file_of(b)).abs() <= 1 && (rank_of(a) - rank_of(b)).abs() <= 1
}

impl KeyModel {
    pub fn extract() -> Result<KeyModel, String> {
        let ref_sq = [0u8, 63u8]; // a1, h8
        let base = hash_of(&kings_only(0, 63, Side::W)).ok_or("kings-only reference board rejected")?;
        let side = hash_of(&kings_only(0, 63, Side::B)).ok_or("kings-only board (black to move) rejected")? ^ base;
        let mut notes = Vec::new();
        let mut king = [[0u64; 64]; 2];
        for c in 0..2 {
            for s in 0..64u8 {
                if s == ref_sq[c] {
                    continue;
                }
                // other king: somewhere not adjacent to s nor to the reference square and different from both
                let other = (0..64u8).rev().map(|x| if c == 0 { x } else { 63 - x }).find(|&x| x != s && x != ref_sq[c] && !adjacent(x, s) && !adjacent(x, ref_sq[c])).unwrap();
                let (a, b) = if c == 0 { (kings_only(s, other, Side::W), kings_only(ref_sq[0], other, Side::W)) } else { (kings_only(other, s, Side::W), kings_only(other, ref_sq[1], Side::W)) };
                king[c][s as usize] = hash_of(&a).ok_or("kings-only board rejected")? ^ hash_of(&b).ok_or("kings-only board rejected")?;
            }
        }
        // plain piece keys
        let mut piece = vec![vec![vec![None; 64]; 6]; 2];
        let king_pairs: [(Sq, Sq); 6] = [(0, 63), (56, 7), (7, 56), (3, 59), (28, 56), (63, 0)];
        for side_c in [Side::W, Side::B] {
            for (ki, kind) in Kind::ALL.iter().enumerate() {
                if *kind == Kind::K {
                    continue;
                }
                for s in 0..64u8 {
                    if *kind == Kind::P && (rank_of(s) == 0 || rank_of(s) == 7) {
                        continue;
                    }
                    // the piece belongs to the side NOT to move, so it may attack the mover's king
                    let stm = side_c.other();
                    let mut got = None;
                    for &(wk, bk) in &king_pairs {
                        if wk == s || bk == s {
                            continue;
                        }
                        let without = kings_only(wk, bk, stm);
                        let mut with = without.clone();
                        with.board[s as usize] = Some((*kind, side_c));
                        if let (Some(a), Some(b)) = (hash_of(&with), hash_of(&without)) {
                            got = Some(a ^ b);
                            break;
                        }
                    }
                    if got.is_none() {
                        notes.push(format!("piece key {:?} {:?} {} not extractable", side_c, kind, sq_name(s)));
                    }
                    piece[side_c.idx()][ki][s as usize] = got;
                }
            }
        }
        // castle keys, both wings where possible
        let mut castle = [[None; 8]; 2];
        let mut castle_by_wing = [[[None; 8]; 2]; 2];
        let mut wing_independent = true;
        for side_c in [Side::W, Side::B] {
            let br = side_c.back_rank();
            let far = side_c.other().back_rank();
            for f in 0..8i32 {
                let mut vals = Vec::new();
                for wing in 0..2usize {
                    let kf = if wing == 0 { if f == 0 { continue } else { 0.max(f - 2) } } else if f == 7 { continue } else { 7.min(f + 2) };
                    let mut st = RawState::empty();
                    st.board[sq(kf, br) as usize] = Some((Kind::K, side_c));
                    st.board[sq(f, br) as usize] = Some((Kind::R, side_c));
                    st.board[sq(kf, far) as usize] = Some((Kind::K, side_c.other()));
                    st.stm = side_c.other();
                    let without = st.clone();
                    st.rights[side_c.idx()][wing] = Some(f as u8);
                    if let (Some(a), Some(b)) = (hash_of(&st), hash_of(&without)) {
                        vals.push(a ^ b);
                        castle_by_wing[side_c.idx()][wing][f as usize] = Some(a ^ b);
                    }
                }
                if vals.len() == 2 && vals[0] != vals[1] {
                    wing_independent = false;
                }
                castle[side_c.idx()][f as usize] = vals.first().copied();
                if vals.is_empty() {
                    notes.push(format!("castle key {:?} file {} not extractable", side_c, f));
                }
            }
        }
        // EP keys
        let mut ep = [None; 8];
        for f in 0..8i32 {
            let mut st = kings_only(0, 63, Side::W);
            st.board[sq(f, 4) as usize] = Some((Kind::P, Side::B));
            let without = st.clone();
            st.ep = Some(sq(f, 5));
            if let (Some(a), Some(b)) = (hash_of(&st), hash_of(&without)) {
                ep[f as usize] = Some(a ^ b);
                // the key must not depend on the side whose pawn it is
                let mut sb = kings_only(0, 63, Side::B);
                sb.board[sq(f, 3) as usize] = Some((Kind::P, Side::W));
                let wb = sb.clone();
                sb.ep = Some(sq(f, 2));
                if let (Some(c), Some(d)) = (hash_of(&sb), hash_of(&wb)) {
                    if c ^ d != a ^ b {
                        notes.push(format!("EP key of file {} depends on the side to move", f));
                    }
                }
            } else {
                notes.push(format!("EP key file {} not extractable", f));
            }
        }
        Ok(KeyModel { base, ref_sq, king, piece, castle, castle_by_wing, castle_wing_independent: wing_independent, ep, side, notes })
    }

    /// Hash the model predicts for a position; None if a needed key is unobservable.
    pub fn predict(&self, p: &Pos) -> Option<u64> {
        let mut h = self.base;
        for q in 0..64u8 {
            if let Some((k, c)) = p.board[q as usize] {
                if k == Kind::K {
                    h ^= self.king[c.idx()][q as usize];
                } else {
                    let ki = Kind::ALL.iter().position(|x| *x == k).unwrap();
                    h ^= self.piece[c.idx()][ki][q as usize]?;
                }
            }
        }
        if p.stm == Side::B {
            h ^= self.side;
        }
        for side in [Side::W, Side::B] {
            for wing in 0..2 {
                if let Some(f) = p.rights[side.idx()][wing] {
                    h ^= self.castle[side.idx()][f as usize]?;
                }
            }
        }
        if let Some(f) = p.ep {
            h ^= self.ep[f as usize]?;
        }
        Some(h)
    }

    /// All observable plain keys with their features.
    pub fn plain_keys(&self) -> Vec<(Feature, u64)> {
        let mut v = Vec::new();
        for side in [Side::W, Side::B] {
            for (ki, kind) in Kind::ALL.iter().enumerate() {
                for s in 0..64u8 {
                    if let Some(k) = self.piece[side.idx()][ki][s as usize] {
                        v.push((Feature::Piece(side, *kind, s), k));
                    }
                }
            }
            for wing in 0..2u8 {
                for f in 0..8u8 {
                    if let Some(k) = self.castle_by_wing[side.idx()][wing as usize][f as usize] {
                        v.push((Feature::Castle(side, wing, f), k));
                    }
                }
            }
        }
        for f in 0..8u8 {
            if let Some(k) = self.ep[f as usize] {
                v.push((Feature::Ep(f), k));
            }
        }
        v.push((Feature::BlackToMove, self.side));
        v
    }
}

/// Try to build two accepted boards whose feature sets differ exactly by `d`.
pub fn realise(d: &BTreeSet<Feature>) -> Option<(RawState, RawState)> {
    let feats: Vec<Feature> = d.iter().copied().collect();
    let n = feats.len();
    let has_king_feature = |c: Side| feats.iter().any(|f| matches!(f, Feature::Piece(s, Kind::K, _) if *s == c));
    let needs_back_rank = |c: Side| feats.iter().any(|f| matches!(f, Feature::Castle(s, _, _) if *s == c));
    let cand = |c: Side| -> Vec<Option<Sq>> {
        if has_king_feature(c) {
            return vec![None];
        }
        let br = c.back_rank();
        let mut v: Vec<Option<Sq>> = (0..8).map(|f| Some(sq(f, br))).collect();
        if !needs_back_rank(c) {
            for s in [sq(0, 3), sq(7, 4), sq(3, 3), sq(4, 5), sq(1, 6), sq(6, 1)] {
                v.push(Some(s));
            }
        }
        v
    };
    let side_in_d = d.contains(&Feature::BlackToMove);
    for split in 0..(1u32 << n) {
        for wk in cand(Side::W) {
            for bk in cand(Side::B) {
                for stm_sel in [Side::W, Side::B] {
                    let mut a = RawState::empty();
                    let mut b = RawState::empty();
                    if let Some(k) = wk {
                        a.board[k as usize] = Some((Kind::K, Side::W));
                        b.board[k as usize] = Some((Kind::K, Side::W));
                    }
                    if let Some(k) = bk {
                        if a.board[k as usize].is_some() {
                            continue;
                        }
                        a.board[k as usize] = Some((Kind::K, Side::B));
                        b.board[k as usize] = Some((Kind::K, Side::B));
                    }
                    a.stm = stm_sel;
                    b.stm = stm_sel;
                    let mut ok = true;
                    // pieces and side first
                    for (i, f) in feats.iter().enumerate() {
                        let (tgt, _other) = if split & (1 << i) != 0 { (&mut a, &mut b) } else { (&mut b, &mut a) };
                        match f {
                            Feature::Piece(c, k, q) => {
                                if tgt.board[*q as usize].is_some() {
                                    ok = false;
                                }
                                tgt.board[*q as usize] = Some((*k, *c));
                            }
                            Feature::BlackToMove => {}
                            _ => {}
                        }
                    }
                    if !ok {
                        continue;
                    }
                    if side_in_d {
                        let i = feats.iter().position(|f| *f == Feature::BlackToMove).unwrap();
                        if split & (1 << i) != 0 {
                            a.stm = Side::B;
                            b.stm = Side::W;
                        } else {
                            a.stm = Side::W;
                            b.stm = Side::B;
                        }
                        if stm_sel == Side::B {
                            continue; // only one pass needed
                        }
                    }
                    // rights and EP, with common support
                    for (i, f) in feats.iter().enumerate() {
                        let in_a = split & (1 << i) != 0;
                        match f {
                            Feature::Castle(c, wing, file) => {
                                let br = c.back_rank();
                                let rs = sq(*file as i32, br) as usize;
                                for st in [&mut a, &mut b] {
                                    if st.board[rs].is_none() {
                                        st.board[rs] = Some((Kind::R, *c));
                                    }
                                }
                                let tgt = if in_a { &mut a } else { &mut b };
                                // the wing is part of the feature: the library decides whether a
                                // right on that wing is acceptable for this king placement
                                if tgt.rights[c.idx()][*wing as usize].is_some() {
                                    ok = false;
                                }
                                tgt.rights[c.idx()][*wing as usize] = Some(*file);
                            }
                            Feature::Ep(file) => {
                                let tgt_stm = if in_a { a.stm } else { b.stm };
                                let them = tgt_stm.other();
                                let (r4, r3) = if them == Side::W { (3, 2) } else { (4, 5) };
                                let ps = sq(*file as i32, r4) as usize;
                                for st in [&mut a, &mut b] {
                                    if st.board[ps].is_none() {
                                        st.board[ps] = Some((Kind::P, them));
                                    }
                                }
                                let tgt = if in_a { &mut a } else { &mut b };
                                if tgt.ep.is_some() {
                                    ok = false;
                                }
                                tgt.ep = Some(sq(*file as i32, r3));
                            }
                            _ => {}
                        }
                    }
                    if !ok {
                        continue;
                    }
                    let (Some(ba), Some(bb)) = (build(&a), build(&b)) else { continue };
                    let (fa, fb) = (features(&pos_of_board(&ba)), features(&pos_of_board(&bb)));
                    let diff: BTreeSet<Feature> = fa.symmetric_difference(&fb).copied().collect();
                    if &diff == d {
                        return Some((a, b));
                    }
                }
            }
        }
    }
    None
}
