//! C09 - the board builder agrees with the FEN parser and round-trips boards.
use super::*;
use crate::gen2::*;
use cozy_chess::*;

pub fn check_state(st: &RawState) -> CaseResult {
    let text = st.text();
    let mk = |sig: &str, msg: String| Failure::new(sig, msg).with("bstate", text.clone());
    let built = st.builder().build();
    if !st.rights_expressible() {
        if let Ok(b) = built {
            return Err(mk("C09:inexpressible-state-accepted", format!("builder state '{}' has a castling right on the wrong side of its king (no Shredder-FEN record can express it) but build() accepted it as '{:#}'", text, b)));
        }
        return Ok(());
    }
    let record = st.shredder_record();
    let parsed = Board::from_fen(&record, true);
    match (&built, &parsed) {
        (Ok(a), Ok(b)) => {
            if a != b || a.hash() != b.hash() || a.checkers() != b.checkers() || a.pinned() != b.pinned() {
                return Err(mk("C09:builder-and-parser-boards-differ", format!("builder state '{}' and its record '{}' give different boards ('{:#}' vs '{:#}')", text, record, a, b)));
            }
            // and converting back reproduces the board
            match BoardBuilder::from_board(a).build() {
                Ok(again) if &again == a => {}
                other => return Err(mk("C09:from_board-roundtrip", format!("from_board(board).build() of '{:#}' gives {:?}", a, other.map(|b| format!("{:#}", b))))),
            }
            Ok(())
        }
        (Err(_), Err(_)) => Ok(()),
        (Ok(a), Err(e)) => Err(mk("C09:builder-accepts-parser-rejects", format!("builder accepts state '{}' (as '{:#}') but the parser rejects its record '{}' with {:?}", text, a, record, e))),
        (Err(e), Ok(b)) => Err(mk("C09:parser-accepts-builder-rejects", format!("parser accepts record '{}' (as '{:#}') but the builder rejects the same state with {:?}", record, b, e))),
    }
}

fn variant_matches(e: &BoardBuilderError, a: Aspect) -> bool {
    matches!(
        (e, a),
        (BoardBuilderError::InvalidBoard, Aspect::Placement)
            | (BoardBuilderError::InvalidCastlingRights, Aspect::Rights)
            | (BoardBuilderError::InvalidEnPassant, Aspect::EnPassant)
            | (BoardBuilderError::InvalidHalfMoveClock, Aspect::Halfmove)
            | (BoardBuilderError::InvalidFullmoveNumber, Aspect::Fullmove)
    )
}

/// With exactly one aspect wrong (by the reference) and the state otherwise acceptable to the
/// library, the build error must name that aspect.
pub fn check_labelled(st: &RawState) -> Result<Option<Aspect>, Failure> {
    let d = defective_aspects(st);
    if d.len() != 1 {
        return Ok(None);
    }
    let (aspect, why) = d[0];
    // "otherwise valid": with the wrong aspect neutralised the library accepts the state
    let mut fixed = st.clone();
    match aspect {
        Aspect::Placement => {}
        Aspect::Rights => fixed.rights = [[None; 2]; 2],
        Aspect::EnPassant => fixed.ep = None,
        Aspect::Halfmove => fixed.hm = 0,
        Aspect::Fullmove => fixed.fm = 1,
    }
    if aspect != Aspect::Placement && fixed.builder().build().is_err() {
        return Ok(None);
    }
    let text = st.text();
    match st.builder().build() {
        Ok(b) => Err(Failure::new(&format!("C09:defective-state-accepted:{}", why), format!("builder state '{}' has a wrong {} ({}) but build() accepted it as '{:#}'", text, aspect.name(), why, b)).with("bstate", text).with("labelled", "true")),
        Err(e) => {
            if !variant_matches(&e, aspect) {
                return Err(Failure::new(&format!("C09:wrong-error:{}-reported-as-{:?}", aspect.name(), e), format!("builder state '{}': only the {} is wrong ({}) but build() reports {:?}", text, aspect.name(), why, e)).with("bstate", text).with("labelled", "true"));
            }
            Ok(Some(aspect))
        }
    }
}

/// The same clause without the reference's opinion: a rejected state that the library accepts
/// once exactly ONE of rights / en-passant square / half-move clock / full-move number is
/// neutralised (and not when any other one is) has exactly that aspect wrong, whatever rule of
/// the library (also one stricter than C06) makes it wrong - the error must name it.
pub fn check_operational(st: &RawState) -> Result<Option<Aspect>, Failure> {
    let Err(e) = st.builder().build() else { return Ok(None) };
    let mut fixing: Vec<Aspect> = Vec::new();
    for a in [Aspect::Rights, Aspect::EnPassant, Aspect::Halfmove, Aspect::Fullmove] {
        let mut fixed = st.clone();
        match a {
            Aspect::Rights => {
                if fixed.rights == [[None; 2]; 2] {
                    continue;
                }
                fixed.rights = [[None; 2]; 2]
            }
            Aspect::EnPassant => {
                if fixed.ep.is_none() {
                    continue;
                }
                fixed.ep = None
            }
            Aspect::Halfmove => {
                if fixed.hm == 0 {
                    continue;
                }
                fixed.hm = 0
            }
            Aspect::Fullmove => {
                if fixed.fm == 1 {
                    continue;
                }
                fixed.fm = 1
            }
            Aspect::Placement => unreachable!(),
        }
        if fixed.builder().build().is_ok() {
            fixing.push(a);
        }
    }
    if fixing.len() != 1 {
        return Ok(None);
    }
    let a = fixing[0];
    if !variant_matches(&e, a) {
        let text = st.text();
        return Err(Failure::new(&format!("C09:wrong-error:{}-reported-as-{:?}", a.name(), e), format!("builder state '{}' is rejected, and accepted as soon as the {} alone is neutralised (and by no other single neutralisation), but build() reports {:?}", text, a.name(), e)).with("bstate", text).with("labelled", "true"));
    }
    Ok(Some(a))
}

pub fn run(ctx: &Ctx) -> Report {
    let mut rep = Report::new(ctx);
    rep.rule = "Builder states = constructed states (random material, motifs, Chess960 rights, EP, clocks) with 0..3 edits (any piece on any square, removals, adjacent kings, rights on any file, any EP square, clocks 0..255 / 0..65535, flipped turn, ninth pawn, seventeenth man, check against the side not to move, three and more checkers, relocated king). For a state whose rights all lie on the correct side of the king the HARNESS writes the Shredder-FEN record; build().is_ok() must equal from_fen(record, true).is_ok(), both boards must be == (hash, checkers, pins) and from_board(board).build() must reproduce the board; states with a right on the wrong side of the king must be rejected. States with exactly one wrong aspect by the reference (placement, rights, EP square, half-move clock, full-move number) that the library accepts once that aspect is neutralised must be rejected with the variant naming the aspect. Independently of the reference: a rejected state that the library accepts once exactly one of rights / EP square / half-move clock / full-move number is neutralised (and by no other single neutralisation) must be rejected with that aspect's variant - this also covers rules of the library that are stricter than C06 (an en-passant square that does not explain the checkers). Non-trivial = state rejected by at least one constructor, or carrying rights/EP; distinct by state hash.".into();
    rep.assumptions = vec!["the harness's record writer is the meaning of 'the record that expresses this state'".into(), "reference defective_aspects() decides which single aspect is wrong".into()];
    rep.required_classes = vec![
        "both-accept", "both-reject", "inexpressible", "with-rights", "with-ep", "three-or-more-checkers", "labelled:placement", "labelled:castling-rights", "labelled:en-passant",
        "labelled:halfmove-clock", "labelled:fullmove-number",
    ];
    rep.add(run_prop(ctx, "states", ctx.tier.scale(400_000, 25), arb_edited_state, |es: &EditedState, st: &mut Stats| {
        let state = es.state();
        st.eval(1);
        let built = state.builder().build().is_ok();
        let expressible = state.rights_expressible();
        st.class(if !expressible {
            "inexpressible"
        } else if built {
            "both-accept"
        } else {
            "both-reject"
        });
        let has_rights = state.rights != [[None; 2]; 2];
        st.class_if(has_rights, "with-rights");
        st.class_if(state.ep.is_some(), "with-ep");
        if let (Some(_), Some(_)) = (state.king_sq(Side::W), state.king_sq(Side::B)) {
            let p = Pos { board: state.board, stm: state.stm, rights: [[None; 2]; 2], ep: None, hm: 0, fm: 1 };
            if p.count(Kind::K, Side::W) == 1 && p.count(Kind::K, Side::B) == 1 {
                st.class_if(p.checkers_mask().count_ones() >= 3, "three-or-more-checkers");
            }
        }
        if !built || has_rights || state.ep.is_some() {
            st.nontrivial(fnv(state.text().as_bytes()));
        }
        st.sample(|| format!("bstate '{}' -> {}", state.text(), if built { "accepted" } else { "rejected" }));
        check_state(&state)?;
        if let Some(a) = check_labelled(&state)? {
            st.class(&format!("labelled:{}", a.name()));
        }
        if let Some(a) = check_operational(&state)? {
            st.class(&format!("single-fix:{}", a.name()));
            if a == Aspect::EnPassant && defective_aspects(&state).is_empty() {
                st.class("single-fix:en-passant-by-a-library-rule-stricter-than-the-reference");
            }
        }
        Ok(())
    }));
    // accepted boards from all sources round-trip through the builder
    rep.add(positions(ctx, "roundtrip", ctx.tier.scale(40_000, 25), (2, 3, 5), 40, |v, st| {
        st.eval(1);
        st.class("board-roundtrip");
        // the builder's own fields and accessors show the board's position
        let bb = BoardBuilder::from_board(v.board);
        let want = RawState::from_pos(v.pos);
        let mut shown = RawState::empty();
        for s in 0..64u8 {
            if bb.square(lsq(s)) != bb.board[s as usize] {
                return Err(v.fail("C09:from_board-fields", format!("{}: from_board(board).square({}) differs from its board array", v.describe(), sq_name(s))));
            }
            shown.board[s as usize] = bb.square(lsq(s)).map(|(p, c)| (mkind(p), mside(c)));
        }
        shown.stm = mside(bb.side_to_move);
        for side in [Side::W, Side::B] {
            let r = bb.castle_rights(lside(side));
            shown.rights[side.idx()] = [r.short.map(|f| f as u8), r.long.map(|f| f as u8)];
            if *r != bb.castle_rights[lside(side) as usize] {
                return Err(v.fail("C09:from_board-fields", format!("{}: from_board(board).castle_rights({:?}) differs from its rights array", v.describe(), side)));
            }
        }
        shown.ep = bb.en_passant.map(msq);
        shown.hm = bb.halfmove_clock;
        shown.fm = bb.fullmove_number;
        if shown != want {
            return Err(v.fail("C09:from_board-fields", format!("{}: from_board(board) holds '{}', the board shows '{}'", v.describe(), shown.text(), want.text())));
        }
        match bb.build() {
            Ok(b) if &b == v.board && b.hash() == v.board.hash() => Ok(()),
            other => Err(v.fail("C09:from_board-roundtrip", format!("{}: from_board(board).build() gives {:?}", v.describe(), other.map(|b| format!("{:#}", b))))),
        }
    }));
    rep
}

pub fn replay(m: &ReplayMap) -> CaseResult {
    if let Some(t) = m.get("bstate") {
        let st = RawState::parse(t).ok_or_else(|| Failure::new("bad-replay", "bad bstate".into()))?;
        check_state(&st)?;
        check_labelled(&st)?;
        check_operational(&st)?;
        return Ok(());
    }
    replay_positions(m, |v| match BoardBuilder::from_board(v.board).build() {
        Ok(b) if &b == v.board => Ok(()),
        _ => Err(v.fail("C09:from_board-roundtrip", "from_board(board).build() does not reproduce the board".into())),
    })
}
