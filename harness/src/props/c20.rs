//! C20 - SAN and UCI helpers are canonical, mutually inverse and legality-preserving.
use super::*;
use cozy_chess::util::*;
use proptest::prelude::*;
use std::panic::{catch_unwind, AssertUnwindSafe};

pub fn check_writers(v: &Visit, m: RMove) -> CaseResult {
    let mk = |sig: &str, msg: String| v.fail(sig, msg).with("move", m.text());
    let want = v.pos.san(m);
    let got = match catch_unwind(AssertUnwindSafe(|| display_san_move(v.board, lmove(m)).to_string())) {
        Ok(s) => s,
        Err(p) => return Err(mk("C20:san-writer-panics", format!("{}: display_san_move({}) panicked on a legal move: {}", v.describe(), m.text(), panic_text(p)))),
    };
    if got != want {
        return Err(mk("C20:san-not-canonical", format!("{}: display_san_move({}) = '{}', canonical SAN is '{}'", v.describe(), m.text(), got, want)));
    }
    match catch_unwind(AssertUnwindSafe(|| parse_san_move(v.board, &got))) {
        Ok(Ok(back)) if mmove(back) == m => {}
        Ok(other) => return Err(mk("C20:san-roundtrip", format!("{}: parse_san_move('{}') = {:?}, expected {}", v.describe(), got, other.map(|x| x.to_string()), m.text()))),
        Err(p) => return Err(mk("C20:san-reader-panics", format!("{}: parse_san_move('{}') panicked: {}", v.describe(), got, panic_text(p)))),
    }
    if v.pos.orthodox_rights() {
        let want = v.pos.uci_std(m);
        let got = display_uci_move(v.board, lmove(m)).to_string();
        if got != want {
            return Err(mk("C20:uci-writer", format!("{}: display_uci_move({}) = '{}', standard UCI is '{}'", v.describe(), m.text(), got, want)));
        }
        match parse_uci_move(v.board, &got) {
            Ok(back) if mmove(back) == m => {}
            other => return Err(mk("C20:uci-roundtrip", format!("{}: parse_uci_move('{}') = {:?}, expected {}", v.describe(), got, other.map(|x| x.to_string()), m.text()))),
        }
    }
    Ok(())
}

#[derive(Clone, Debug)]
pub struct SanParts {
    /// 0 none, 1 N, 2 B, 3 R, 4 Q, 5 K, 6 P
    pub piece: u8,
    pub from_file: Option<u8>,
    pub from_rank: Option<u8>,
    pub capture: bool,
    pub dest: u8,
    /// promotion letter index into "NBRQKP"
    pub promo: Option<u8>,
    pub eq_sign: bool,
    /// 0 none, 1 '+', 2 '#'
    pub suffix: u8,
    /// 0 = ordinary, 1 = O-O, 2 = O-O-O
    pub castle: u8,
}

const PIECE_LETTERS: [Option<Kind>; 7] = [None, Some(Kind::N), Some(Kind::B), Some(Kind::R), Some(Kind::Q), Some(Kind::K), Some(Kind::P)];
const PROMO_KINDS: [Kind; 6] = [Kind::N, Kind::B, Kind::R, Kind::Q, Kind::K, Kind::P];

impl SanParts {
    pub fn text(&self) -> String {
        let mut s = String::new();
        match self.castle {
            1 => s.push_str("O-O"),
            2 => s.push_str("O-O-O"),
            _ => {
                if let Some(k) = PIECE_LETTERS[self.piece as usize % 7] {
                    s.push(k.upper());
                }
                if let Some(f) = self.from_file {
                    s.push(file_char(f % 8));
                }
                if let Some(r) = self.from_rank {
                    s.push((b'1' + r % 8) as char);
                }
                if self.capture {
                    s.push('x');
                }
                s.push_str(&sq_name(self.dest % 64));
                if let Some(p) = self.promo {
                    if self.eq_sign {
                        s.push('=');
                    }
                    s.push(PROMO_KINDS[p as usize % 6].upper());
                }
            }
        }
        match self.suffix {
            1 => s.push('+'),
            2 => s.push('#'),
            _ => {}
        }
        s
    }

    /// Reference-legal moves matching every written component (capture mark and suffix are decoration).
    pub fn matching(&self, p: &Pos) -> Vec<RMove> {
        let legal = p.legal_moves();
        if self.castle != 0 {
            let want_short = self.castle == 1;
            return legal.into_iter().filter(|m| p.is_castle(*m) && (file_of(m.to) > file_of(m.from)) == want_short).collect();
        }
        let kind = PIECE_LETTERS[self.piece as usize % 7].unwrap_or(Kind::P);
        let promo = self.promo.map(|x| PROMO_KINDS[x as usize % 6]);
        legal
            .into_iter()
            .filter(|m| {
                p.board[m.from as usize].map(|(k, _)| k) == Some(kind)
                    && m.to == self.dest % 64
                    && self.from_file.map(|f| file_of(m.from) == (f % 8) as i32).unwrap_or(true)
                    && self.from_rank.map(|r| rank_of(m.from) == (r % 8) as i32).unwrap_or(true)
                    && m.promo == promo
            })
            .collect()
    }
}

pub fn check_reader_parts(v: &Visit, parts: &SanParts) -> Result<usize, Failure> {
    let text = parts.text();
    let s = parts.matching(v.pos);
    let mk = |sig: &str, msg: String| v.fail(sig, msg).with("san_hex", hex_encode(text.as_bytes()));
    let got = match catch_unwind(AssertUnwindSafe(|| parse_san_move(v.board, &text))) {
        Ok(r) => r,
        Err(p) => return Err(mk("C20:san-reader-panics", format!("{}: parse_san_move('{}') panicked: {}", v.describe(), text, panic_text(p)))),
    };
    match (&got, s.len()) {
        (Ok(m), 1) if mmove(*m) == s[0] => {}
        (Ok(m), n) => {
            return Err(mk(
                if n == 1 { "C20:san-reader-wrong-move" } else if n == 0 { "C20:san-reader-returns-non-matching-move" } else { "C20:san-reader-accepts-ambiguous" },
                format!("{}: parse_san_move('{}') = {}, but the legal moves matching every written component are {:?}", v.describe(), text, m, s.iter().map(|x| x.text()).collect::<Vec<_>>()),
            ))
        }
        (Err(_), 1) => {
            // must still parse when the text is the canonical SAN of that move
            if v.pos.san(s[0]) == text {
                return Err(mk("C20:san-reader-rejects-canonical", format!("{}: parse_san_move rejects canonical SAN '{}'", v.describe(), text)));
            }
        }
        (Err(_), _) => {}
    }
    Ok(s.len())
}

pub fn check_reader_string(v: &Visit, text: &str) -> CaseResult {
    let mk = |sig: &str, msg: String| v.fail(sig, msg).with("san_hex", hex_encode(text.as_bytes()));
    match catch_unwind(AssertUnwindSafe(|| parse_san_move(v.board, text))) {
        Err(p) => Err(mk("C20:san-reader-panics", format!("{}: parse_san_move({:?}) panicked: {}", v.describe(), text, panic_text(p)))),
        Ok(Err(_)) => Ok(()),
        Ok(Ok(m)) => {
            if !v.pos.legal_moves().contains(&mmove(m)) {
                return Err(mk("C20:san-reader-returns-illegal-move", format!("{}: parse_san_move({:?}) = {} which is not a legal move", v.describe(), text, m)));
            }
            Ok(())
        }
    }
}

#[derive(Clone, Debug)]
struct ReaderCase {
    case: PosCase,
    /// (move selector, mask of components to keep/alter, random bits)
    tries: Vec<(u16, u16, u32)>,
    junk: Vec<String>,
}

fn parts_from(p: &Pos, legal: &[RMove], sel: u16, mask: u16, rnd: u32) -> SanParts {
    if legal.is_empty() || mask & 0x8000 != 0 {
        // free-form components
        return SanParts {
            piece: (rnd % 7) as u8,
            from_file: if mask & 1 != 0 { Some((rnd >> 3) as u8 % 8) } else { None },
            from_rank: if mask & 2 != 0 { Some((rnd >> 6) as u8 % 8) } else { None },
            capture: mask & 4 != 0,
            dest: (rnd >> 9) as u8 % 64,
            promo: if mask & 8 != 0 { Some((rnd >> 15) as u8 % 6) } else { None },
            eq_sign: mask & 16 != 0,
            suffix: (mask >> 5) as u8 % 3,
            castle: if mask & 0x300 == 0x300 { 1 + (rnd >> 20) as u8 % 2 } else { 0 },
        };
    }
    let m = legal[(sel as usize * legal.len()) >> 16];
    if p.is_castle(m) && mask & 0x4000 == 0 {
        return SanParts { piece: 0, from_file: None, from_rank: None, capture: false, dest: 0, promo: None, eq_sign: false, suffix: (mask >> 5) as u8 % 3, castle: if file_of(m.to) > file_of(m.from) { 1 } else { 2 } };
    }
    let (kind, _) = p.board[m.from as usize].unwrap();
    let piece = match kind {
        Kind::P => {
            if mask & 0x80 != 0 {
                6
            } else {
                0
            }
        }
        Kind::N => 1,
        Kind::B => 2,
        Kind::R => 3,
        Kind::Q => 4,
        Kind::K => 5,
    };
    let capture = p.board[m.to as usize].is_some() || p.is_ep_capture(m);
    let mut parts = SanParts {
        piece,
        from_file: if mask & 1 != 0 || (kind == Kind::P && capture && mask & 0x400 == 0) { Some(file_of(m.from) as u8) } else { None },
        from_rank: if mask & 2 != 0 { Some(rank_of(m.from) as u8) } else { None },
        capture: if mask & 4 != 0 { !capture } else { capture },
        dest: m.to,
        promo: m.promo.map(|k| PROMO_KINDS.iter().position(|x| *x == k).unwrap() as u8),
        eq_sign: mask & 16 == 0,
        suffix: (mask >> 5) as u8 % 3,
        castle: 0,
    };
    // occasional perturbations
    match (rnd >> 24) % 12 {
        0 => parts.dest = (rnd >> 9) as u8 % 64,
        1 => parts.promo = Some((rnd >> 15) as u8 % 6),
        2 => parts.promo = None,
        3 => parts.piece = (rnd % 7) as u8,
        4 => parts.from_file = Some((rnd >> 3) as u8 % 8),
        5 => parts.from_rank = Some((rnd >> 6) as u8 % 8),
        _ => {}
    }
    parts
}

pub fn run(ctx: &Ctx) -> Report {
    let mut rep = Report::new(ctx);
    rep.rule = "Writers: every reference-legal move of every position along generated histories (Chess960 and orthodox rights, multi-queen/knight/rook material for disambiguation, promotion and mate-net motifs): display_san_move text == the reference's PGN-standard SAN character for character and parse_san_move inverts it; on boards whose rights all have the king on the e-file and rooks on a/h (incl. no rights at all) display_uci_move == standard UCI (castle as the king's two-square move) and parse_uci_move inverts it. Reader: SAN strings are assembled from known components (piece letter incl. 'P', origin file/rank, 'x', destination, '='/promotion incl. K and P, '+'/'#', O-O/O-O-O) derived from a legal move with components kept, dropped or perturbed, or chosen freely; with S = reference-legal moves matching every written component the reader must return Err when |S| != 1, Err or the single member when |S| = 1, and the member when the text is that move's canonical SAN. Arbitrary and mutated strings: Err or a reference-legal move, never a panic. evaluations = writer moves + reader strings. Non-trivial = SAN with a disambiguator, castle, promotion or suffix (writers) / reader strings with |S| >= 1; distinct by (FEN, text) hash.".into();
    rep.assumptions = vec![
        "reference SAN writer implements the PGN standard (file, else rank, else both; among legal moves only)".into(),
        "capture mark and check/mate suffix are decoration the reader may skip (documented in the source); a mismatch there is not flagged".into(),
        "matching is judged on the library's move encoding: 'Kh1' may denote the castling move e1h1".into(),
    ];
    rep.required_classes = vec![
        "san:file-disambiguator", "san:rank-disambiguator", "san:square-disambiguator", "san:castle", "san:castle-mate", "san:castle-check", "san:promotion", "san:check", "san:mate", "san:en-passant", "uci:castle", "uci:orthodox-board",
        "reader:|S|=0", "reader:|S|=1", "reader:|S|>=2", "reader:castle-form", "reader:junk-accepted",
    ];
    rep.add(positions(ctx, "writers", ctx.tier.scale(30_000, 25), (2, 4, 6), 30, |v, st| {
        let ortho = v.pos.orthodox_rights();
        st.class_if(ortho, "uci:orthodox-board");
        for m in v.pos.legal_moves() {
            st.eval(1);
            let san = v.pos.san(m);
            let body = san.trim_end_matches(['+', '#']);
            let castle = body.starts_with("O-");
            let mut nt = castle || san.contains('=') || san.ends_with('+') || san.ends_with('#');
            st.class_if(castle, "san:castle");
            st.class_if(castle && ortho, "uci:castle");
            st.class_if(castle && san.ends_with('#'), "san:castle-mate");
            st.class_if(castle && san.ends_with('+'), "san:castle-check");
            st.class_if(san.contains('='), "san:promotion");
            st.class_if(san.ends_with('+'), "san:check");
            st.class_if(san.ends_with('#'), "san:mate");
            st.class_if(v.pos.is_ep_capture(m), "san:en-passant");
            if !castle && !matches!(v.pos.board[m.from as usize], Some((Kind::P, _))) {
                let core: Vec<char> = body.chars().filter(|c| *c != 'x').collect();
                // piece letter + [disambiguation] + destination(2)
                match core.len() {
                    4 => {
                        nt = true;
                        st.class(if core[1].is_ascii_digit() { "san:rank-disambiguator" } else { "san:file-disambiguator" });
                    }
                    5 => {
                        nt = true;
                        st.class("san:square-disambiguator");
                    }
                    _ => {}
                }
            }
            if nt {
                st.nontrivial(fnv(format!("{}|{}", v.pos.to_fen(true), san).as_bytes()));
            }
            st.sample(|| format!("{} : {} = {}", v.pos.to_fen(true), m.text(), san));
            check_writers(v, m)?;
        }
        Ok(())
    }));
    rep.add(run_prop(
        ctx,
        "reader",
        ctx.tier.scale(60_000, 25),
        || {
            (arb_case(2, 4, 6, 24), proptest::collection::vec((any::<u16>(), any::<u16>(), any::<u32>()), 12), proptest::collection::vec(prop_oneof![any::<String>(), "[NBRQKPa-h1-8xO=+#-]{0,8}", "\\PC{0,6}"], 3))
                .prop_map(|(case, tries, junk)| ReaderCase { case, tries, junk })
        },
        |rc: &ReaderCase, st: &mut Stats| {
            let Some((board, origin)) = start_board(&rc.case.start) else {
                st.count("rejected-by-library", 1);
                return Ok(());
            };
            let mut last: Option<(Board, Vec<String>)> = None;
            let _ = walk::<()>(board, &rc.case.ops, |b, _p, _s, h| {
                last = Some((b.clone(), h.to_vec()));
                Ok(())
            });
            let (b, hist) = last.unwrap();
            let pos = pos_of_board(&b);
            if !well_formed(&b, &pos) {
                return Ok(());
            }
            let v = Visit { board: &b, pos: &pos, step: &Step::Start, hist: &hist, origin: &origin };
            let legal = pos.legal_moves();
            for &(sel, mask, rnd) in &rc.tries {
                let parts = parts_from(&pos, &legal, sel, mask, rnd);
                st.eval(1);
                let n = check_reader_parts(&v, &parts)?;
                st.class(match n {
                    0 => "reader:|S|=0",
                    1 => "reader:|S|=1",
                    _ => "reader:|S|>=2",
                });
                st.class_if(parts.castle != 0, "reader:castle-form");
                if n >= 1 {
                    st.nontrivial(fnv(format!("{}|{}", pos.to_fen(true), parts.text()).as_bytes()));
                }
                st.sample(|| format!("{} : '{}' matches {:?}", pos.to_fen(true), parts.text(), parts.matching(&pos).iter().map(|m| m.text()).collect::<Vec<_>>()));
                // mutated canonical SAN of that move as free text
                if !legal.is_empty() {
                    let m = legal[(sel as usize * legal.len()) >> 16];
                    let mut text: Vec<char> = pos.san(m).chars().collect();
                    let i = (rnd as usize >> 4) % (text.len() + 1);
                    match rnd % 5 {
                        0 => text.insert(i, ['x', '+', '=', 'Q', '1', 'a', 'O', '-', '\u{e9}'][(rnd as usize >> 8) % 9]),
                        1 => {
                            if i < text.len() {
                                text.remove(i);
                            }
                        }
                        2 => {
                            if i < text.len() {
                                text[i] = ['x', '+', '#', 'N', '8', 'h', 'O', '0', 'K'][(rnd as usize >> 8) % 9];
                            }
                        }
                        3 => text.push(['+', '#', '!', ' ', 'Q'][(rnd as usize >> 8) % 5]),
                        _ => {}
                    }
                    let t: String = text.into_iter().collect();
                    st.eval(1);
                    st.class_if(parse_san_move(&b, &t).is_ok(), "reader:mutated-accepted");
                    check_reader_string(&v, &t)?;
                    // when the mutated text still has the shape of SAN, its components are known again
                    if let Some(parts) = parse_parts(&t) {
                        st.class("reader:mutated-text-with-component-shape");
                        check_reader_parts(&v, &parts)?;
                    }
                }
            }
            for j in &rc.junk {
                st.eval(1);
                st.class_if(catch_unwind(AssertUnwindSafe(|| parse_san_move(&b, j).is_ok())).unwrap_or(false), "reader:junk-accepted");
                check_reader_string(&v, j)?;
                if let Some(parts) = parse_parts(j) {
                    check_reader_parts(&v, &parts)?;
                }
            }
            Ok(())
        },
    ));
    rep
}

pub fn replay(m: &ReplayMap) -> CaseResult {
    let want = m.get("fen").cloned();
    let mv = m.get("move").and_then(|t| RMove::parse(t));
    let san = m.get("san_hex").and_then(|h| hex_decode(h)).and_then(|b| String::from_utf8(b).ok());
    replay_positions(m, |v| {
        if let Some(f) = &want {
            if &v.pos.to_fen(true) != f {
                return Ok(());
            }
        }
        if let Some(mv) = mv {
            if v.pos.legal_moves().contains(&mv) {
                check_writers(v, mv)?;
            }
        }
        if let Some(t) = &san {
            check_reader_string(v, t)?;
            // component check: re-derive components when the text has the component shape
            if let Some(parts) = parse_parts(t) {
                check_reader_parts(v, &parts)?;
            }
        }
        if mv.is_none() && san.is_none() {
            for mv in v.pos.legal_moves() {
                check_writers(v, mv)?;
            }
        }
        Ok(())
    })
}

/// Inverse of SanParts::text for replay (only for texts produced by it).
pub fn parse_parts(t: &str) -> Option<SanParts> {
    let (body, suffix) = if let Some(b) = t.strip_suffix('+') { (b, 1) } else if let Some(b) = t.strip_suffix('#') { (b, 2) } else { (t, 0) };
    if body == "O-O" || body == "O-O-O" {
        return Some(SanParts { piece: 0, from_file: None, from_rank: None, capture: false, dest: 0, promo: None, eq_sign: false, suffix, castle: if body == "O-O" { 1 } else { 2 } });
    }
    let mut c: Vec<char> = body.chars().collect();
    let mut promo = None;
    let mut eq_sign = false;
    if let Some(&l) = c.last() {
        if let Some(i) = "NBRQKP".find(l) {
            if c.len() >= 3 {
                promo = Some(i as u8);
                c.pop();
                if c.last() == Some(&'=') {
                    eq_sign = true;
                    c.pop();
                }
            }
        }
    }
    if c.len() < 2 {
        return None;
    }
    let dr = c.pop()?;
    let df = c.pop()?;
    if !('a'..='h').contains(&df) || !('1'..='8').contains(&dr) {
        return None;
    }
    let dest = (dr as u8 - b'1') * 8 + (df as u8 - b'a');
    let mut capture = false;
    if c.last() == Some(&'x') {
        capture = true;
        c.pop();
    }
    let mut from_rank = None;
    if let Some(&l) = c.last() {
        if ('1'..='8').contains(&l) {
            from_rank = Some(l as u8 - b'1');
            c.pop();
        }
    }
    let mut from_file = None;
    if let Some(&l) = c.last() {
        if ('a'..='h').contains(&l) {
            from_file = Some(l as u8 - b'a');
            c.pop();
        }
    }
    let piece = match c.pop() {
        None => 0,
        Some('N') => 1,
        Some('B') => 2,
        Some('R') => 3,
        Some('Q') => 4,
        Some('K') => 5,
        Some('P') => 6,
        _ => return None,
    };
    if !c.is_empty() {
        return None;
    }
    Some(SanParts { piece, from_file, from_rank, capture, dest, promo, eq_sign, suffix, castle: 0 })
}
