//! C05 - attack and geometry lookups equal their geometric definition.
use super::*;
use cozy_chess::*;

const ROOK_D: [(i32, i32); 4] = [(0, 1), (1, 0), (0, -1), (-1, 0)];
const BISHOP_D: [(i32, i32); 4] = [(1, 1), (1, -1), (-1, -1), (-1, 1)];

/// Independent ray walker: every square reached walking each direction up to and including
/// the first occupied square.
pub fn walk_rays(s: u8, occ: u64, dirs: &[(i32, i32); 4]) -> u64 {
    let mut out = 0u64;
    for &(df, dr) in dirs {
        let (mut f, mut r) = (file_of(s) + df, rank_of(s) + dr);
        while on_board(f, r) {
            let b = 1u64 << sq(f, r);
            out |= b;
            if occ & b != 0 {
                break;
            }
            f += df;
            r += dr;
        }
    }
    out
}

fn offsets_mask(s: u8, offs: &[(i32, i32)]) -> u64 {
    let mut m = 0u64;
    for &(df, dr) in offs {
        let (f, r) = (file_of(s) + df, rank_of(s) + dr);
        if on_board(f, r) {
            m |= 1u64 << sq(f, r);
        }
    }
    m
}

pub fn between_def(a: u8, b: u8) -> u64 {
    let (df, dr) = (file_of(b) - file_of(a), rank_of(b) - rank_of(a));
    if (df == 0 && dr == 0) || !(df == 0 || dr == 0 || df.abs() == dr.abs()) {
        return 0;
    }
    let (sf, sr) = (df.signum(), dr.signum());
    let (mut f, mut r) = (file_of(a) + sf, rank_of(a) + sr);
    let mut m = 0u64;
    while (f, r) != (file_of(b), rank_of(b)) {
        m |= 1u64 << sq(f, r);
        f += sf;
        r += sr;
    }
    m
}

pub fn line_def(a: u8, b: u8) -> u64 {
    let (df, dr) = (file_of(b) - file_of(a), rank_of(b) - rank_of(a));
    if (df == 0 && dr == 0) || !(df == 0 || dr == 0 || df.abs() == dr.abs()) {
        return 0;
    }
    let (sf, sr) = (df.signum(), dr.signum());
    let mut m = 1u64 << a;
    for dir in [1, -1] {
        let (mut f, mut r) = (file_of(a) + dir * sf, rank_of(a) + dir * sr);
        while on_board(f, r) {
            m |= 1u64 << sq(f, r);
            f += dir * sf;
            r += dir * sr;
        }
    }
    m
}

pub fn pawn_quiets_def(s: u8, white: bool, occ: u64) -> u64 {
    let d = if white { 1 } else { -1 };
    let (f, r) = (file_of(s), rank_of(s));
    let mut m = 0u64;
    if on_board(f, r + d) && occ & (1u64 << sq(f, r + d)) == 0 {
        m |= 1u64 << sq(f, r + d);
        let start = if white { 1 } else { 6 };
        if r == start && occ & (1u64 << sq(f, r + 2 * d)) == 0 {
            m |= 1u64 << sq(f, r + 2 * d);
        }
    }
    m
}

fn slider_fail(kind: &str, s: u8, occ: u64, what: &str, got: u64, want: u64) -> Failure {
    Failure::new(&format!("C05:{}-{}", kind, what), format!("{} lookup ({}) on {} with occupancy {:#018x}: got {:#018x}, ray walk gives {:#018x}", kind, what, sq_name(s), occ, got, want))
        .with("kind", kind.to_string())
        .with("square", sq_name(s))
        .with("occupancy", format!("{:#018x}", occ))
}

pub fn check_slider(kind: &str, s: u8, occ: u64) -> CaseResult {
    let sqr = lsq(s);
    let (fast, slow, want) = if kind == "rook" {
        (get_rook_moves(sqr, BitBoard(occ)).0, get_rook_moves_const(sqr, BitBoard(occ)).0, walk_rays(s, occ, &ROOK_D))
    } else {
        (get_bishop_moves(sqr, BitBoard(occ)).0, get_bishop_moves_const(sqr, BitBoard(occ)).0, walk_rays(s, occ, &BISHOP_D))
    };
    if fast != want {
        return Err(slider_fail(kind, s, occ, "table", fast, want));
    }
    if slow != want {
        return Err(slider_fail(kind, s, occ, "const", slow, want));
    }
    Ok(())
}

pub fn check_small_tables() -> Vec<Failure> {
    let mut fails = Vec::new();
    let knight = [(1, 2), (2, 1), (2, -1), (1, -2), (-1, -2), (-2, -1), (-2, 1), (-1, 2)];
    let king = [(0, 1), (1, 1), (1, 0), (1, -1), (0, -1), (-1, -1), (-1, 0), (-1, 1)];
    let mut push = |name: &str, arg: String, got: u64, want: u64| {
        if got != want && fails.len() < 8 {
            fails.push(Failure::new(&format!("C05:{}", name), format!("{}({}) = {:#018x}, geometric definition gives {:#018x}", name, arg, got, want)).with("table", name.to_string()).with("arg", arg));
        }
    };
    for s in 0..64u8 {
        let q = lsq(s);
        push("get_knight_moves", sq_name(s), get_knight_moves(q).0, offsets_mask(s, &knight));
        push("get_king_moves", sq_name(s), get_king_moves(q).0, offsets_mask(s, &king));
        push("get_pawn_attacks", format!("{},white", sq_name(s)), get_pawn_attacks(q, Color::White).0, offsets_mask(s, &[(1, 1), (-1, 1)]));
        push("get_pawn_attacks", format!("{},black", sq_name(s)), get_pawn_attacks(q, Color::Black).0, offsets_mask(s, &[(1, -1), (-1, -1)]));
        push("get_rook_rays", sq_name(s), get_rook_rays(q).0, walk_rays(s, 0, &ROOK_D));
        push("get_bishop_rays", sq_name(s), get_bishop_rays(q).0, walk_rays(s, 0, &BISHOP_D));
        for t in 0..64u8 {
            push("get_between_rays", format!("{},{}", sq_name(s), sq_name(t)), get_between_rays(q, lsq(t)).0, between_def(s, t));
            push("get_line_rays", format!("{},{}", sq_name(s), sq_name(t)), get_line_rays(q, lsq(t)).0, line_def(s, t));
        }
    }
    fails
}

pub fn run(ctx: &Ctx) -> Report {
    let mut rep = Report::new(ctx);
    rep.rule = "Sliders: for each of 64 squares and rook/bishop, ALL subsets of the square's full ray set (carry-rippler enumeration, up to 2^14) are used as ray occupancy, combined with three settings of the remaining 64-bit positions (all clear, all set incl. the origin square, pseudo-random); plus pseudo-random full occupancies of varied density. get_*_moves (table; magic or PEXT depending on the build), get_*_moves_const and an independent ray walker must agree. Small tables: all 64 squares (x2 colours) for knight, king, pawn attacks and empty-board rays; all 64x64 pairs for between/line; pawn pushes for all squares x colours x all 4 settings of the two squares ahead x pseudo-random other bits. Runs in the magic and the PEXT build. Non-trivial = at least one blocker on a ray (sliders) / every table entry; distinct by construction (enumeration), counted.".into();
    rep.assumptions = vec![
        "exhaustive over ray-subset occupancies; the other 2^(64-k) bit patterns are sampled (three settings + random), resting on the lookup ignoring non-ray bits".into(),
        "the ray walker in the harness is the geometric definition".into(),
    ];
    rep.exhaustive = Some(true);
    rep.exhaustive_note = Some("all relevant-ray-subset occupancies per square and slider kind; all entries of the knight/king/pawn/ray/between/line tables; pawn pushes over all settings of the two squares that matter".into());
    let seed = ctx.seed;
    let random_per_square: u64 = match ctx.tier {
        Tier::Quick => 20_000,
        Tier::Thorough => 2_000_000,
    };
    rep.add(run_sharded(|shard, st| {
        let mut fails: Vec<Failure> = Vec::new();
        let mut mix = Mix(shard_seed(seed, "C05", "sliders", shard));
        for s in (shard as u8..64).step_by(SHARDS) {
            for kind in ["rook", "bishop"] {
                let rays = if kind == "rook" { walk_rays(s, 0, &ROOK_D) } else { walk_rays(s, 0, &BISHOP_D) };
                st.class(&format!("{}-squares", kind));
                // all subsets of the ray set
                let mut sub = 0u64;
                loop {
                    for setting in 0..3 {
                        let others = match setting {
                            0 => 0,
                            1 => !rays,
                            _ => mix.next() & !rays,
                        };
                        st.eval(1);
                        if sub != 0 {
                            st.nontrivial_enumerated += 1;
                        }
                        if let Err(f) = check_slider(kind, s, sub | others) {
                            if fails.len() < 4 {
                                fails.push(f);
                            }
                        }
                    }
                    sub = sub.wrapping_sub(rays) & rays;
                    if sub == 0 {
                        break;
                    }
                }
                // random full occupancies with varied density
                for i in 0..random_per_square {
                    let occ = match i % 4 {
                        0 => mix.next(),
                        1 => mix.next() & mix.next(),
                        2 => mix.next() & mix.next() & mix.next(),
                        _ => mix.next() | mix.next(),
                    };
                    st.eval(1);
                    if occ & rays != 0 {
                        st.nontrivial_enumerated += 1;
                    }
                    if i == 0 {
                        st.sample(|| format!("{} on {} occupancy {:#018x} -> {:#018x}", kind, sq_name(s), occ, if kind == "rook" { walk_rays(s, occ, &ROOK_D) } else { walk_rays(s, occ, &BISHOP_D) }));
                    }
                    if let Err(f) = check_slider(kind, s, occ) {
                        if fails.len() < 4 {
                            fails.push(f);
                        }
                    }
                }
            }
            // pawn pushes
            for white in [true, false] {
                let d = if white { 1 } else { -1 };
                let (f, r) = (file_of(s), rank_of(s));
                let a = if on_board(f, r + d) { 1u64 << sq(f, r + d) } else { 0 };
                let b = if on_board(f, r + 2 * d) { 1u64 << sq(f, r + 2 * d) } else { 0 };
                for setting in 0..4 {
                    for rnd in 0..32 {
                        let base = match rnd {
                            0 => 0,
                            1 => !0u64,
                            _ => mix.next(),
                        } & !(a | b);
                        let occ = base | if setting & 1 != 0 { a } else { 0 } | if setting & 2 != 0 { b } else { 0 };
                        st.eval(1);
                        st.nontrivial_enumerated += 1;
                        let got = get_pawn_quiets(lsq(s), if white { Color::White } else { Color::Black }, BitBoard(occ)).0;
                        let want = pawn_quiets_def(s, white, occ);
                        if got != want && fails.len() < 4 {
                            fails.push(
                                Failure::new("C05:get_pawn_quiets", format!("get_pawn_quiets({}, {}, {:#018x}) = {:#018x}, definition gives {:#018x}", sq_name(s), if white { "white" } else { "black" }, occ, got, want))
                                    .with("table", "get_pawn_quiets")
                                    .with("square", sq_name(s))
                                    .with("white", white.to_string())
                                    .with("occupancy", format!("{:#018x}", occ)),
                            );
                        }
                    }
                }
            }
        }
        if shard == 0 {
            st.eval(64 * 6 + 64 * 64 * 2);
            st.nontrivial_enumerated += 64 * 6 + 64 * 64 * 2;
            st.class("small-tables");
            fails.extend(check_small_tables());
            st.samples.push(format!("between(a1,h8)={:#018x} line(b1,c2)={:#018x} line(a1,a1)={:#018x}", get_between_rays(Square::A1, Square::H8).0, get_line_rays(Square::B1, Square::C2).0, get_line_rays(Square::A1, Square::A1).0));
        }
        fails
    }));
    rep
}

pub fn replay(m: &ReplayMap) -> CaseResult {
    let hex = |k: &str| m.get(k).and_then(|s| u64::from_str_radix(s.trim_start_matches("0x"), 16).ok());
    let square = |k: &str| m.get(k).and_then(|s| RMove::parse(&format!("{}a1", s)).map(|mv| mv.from));
    if let (Some(kind), Some(s), Some(occ)) = (m.get("kind"), square("square"), hex("occupancy")) {
        return check_slider(kind, s, occ);
    }
    if m.get("table").map(|t| t == "get_pawn_quiets").unwrap_or(false) {
        if let (Some(s), Some(occ)) = (square("square"), hex("occupancy")) {
            let white = m.get("white").map(|w| w == "true").unwrap_or(true);
            let got = get_pawn_quiets(lsq(s), if white { Color::White } else { Color::Black }, BitBoard(occ)).0;
            if got != pawn_quiets_def(s, white, occ) {
                return Err(Failure::new("C05:get_pawn_quiets", "pawn pushes differ from the definition".into()));
            }
            return Ok(());
        }
    }
    match check_small_tables().into_iter().next() {
        Some(f) => Err(f),
        None => Ok(()),
    }
}
