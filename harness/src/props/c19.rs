//! C19 - coordinates and their text forms are total, exact inverses in every build.
use super::*;
use cozy_chess::*;
use proptest::prelude::*;
use std::convert::TryFrom;
use std::panic::{catch_unwind, AssertUnwindSafe};

fn fail(sig: &str, msg: String) -> Failure {
    Failure::new(sig, msg)
}

pub fn check_offset(s: u8, df: i8, dr: i8, with_panicking: bool) -> CaseResult {
    let q = lsq(s);
    let (nf, nr) = (file_of(s) + df as i32, rank_of(s) + dr as i32);
    let want = if on_board(nf, nr) { Some(sq(nf, nr)) } else { None };
    let mk = |sig: &str, msg: String| fail(sig, msg).with("square", sq_name(s)).with("df", df.to_string()).with("dr", dr.to_string());
    match catch_unwind(AssertUnwindSafe(|| q.try_offset(df, dr))) {
        Err(p) => return Err(mk("C19:try_offset-panics", format!("Square::{}.try_offset({}, {}) panicked: {} [build {}]", sq_name(s), df, dr, panic_text(p), build_name()))),
        Ok(got) => {
            if got.map(msq) != want {
                return Err(mk("C19:try_offset-value", format!("Square::{}.try_offset({}, {}) = {:?}, coordinate arithmetic gives {:?} [build {}]", sq_name(s), df, dr, got, want.map(sq_name), build_name())));
            }
        }
    }
    if with_panicking {
        let r = catch_unwind(AssertUnwindSafe(|| q.offset(df, dr)));
        match (r, want) {
            (Ok(g), Some(w)) if msq(g) == w => {}
            (Err(_), None) => {}
            (r, w) => return Err(mk("C19:offset", format!("Square::{}.offset({}, {}) gives {:?}, expected {:?} (panic exactly when out of bounds)", sq_name(s), df, dr, r.ok(), w.map(sq_name))).with("mode", "offset")),
        }
    }
    Ok(())
}

pub fn check_coordinates() -> Vec<Failure> {
    let mut f = Vec::new();
    let mut bad = |sig: &str, msg: String| {
        if f.len() < 8 {
            f.push(fail(sig, msg));
        }
    };
    for s in 0..64u8 {
        let q = lsq(s);
        let (fl, rk) = (file_of(s) as usize, rank_of(s) as usize);
        if q.file() as usize != fl || q.rank() as usize != rk {
            bad("C19:square-decompose", format!("{}: file()/rank() = {:?}/{:?}", sq_name(s), q.file(), q.rank()));
        }
        if Square::new(File::index(fl), Rank::index(rk)) != q {
            bad("C19:square-new", format!("Square::new({}, {}) != {}", fl, rk, sq_name(s)));
        }
        if msq(q.flip_file()) != sq(7 - fl as i32, rk as i32) || msq(q.flip_rank()) != sq(fl as i32, 7 - rk as i32) {
            bad("C19:square-flip", format!("{}: flip_file {:?} flip_rank {:?}", sq_name(s), q.flip_file(), q.flip_rank()));
        }
        if q.relative_to(Color::White) != q || msq(q.relative_to(Color::Black)) != sq(fl as i32, 7 - rk as i32) {
            bad("C19:square-relative", format!("{}: relative_to wrong", sq_name(s)));
        }
        if Square::try_index(s as usize) != Some(q) || Square::index(s as usize) != q || Square::index_const(s as usize) != q || Square::ALL[s as usize] != q {
            bad("C19:square-index", format!("{}: index functions disagree", sq_name(s)));
        }
    }
    for i in 0..8usize {
        let (fl, rk) = (File::index(i), Rank::index(i));
        if fl as usize != i || rk as usize != i || File::try_index(i) != Some(fl) || Rank::try_index(i) != Some(rk) || File::ALL[i] != fl || Rank::ALL[i] != rk {
            bad("C19:file-rank-index", format!("index {}", i));
        }
        if fl.flip() as usize != 7 - i || rk.flip() as usize != 7 - i {
            bad("C19:file-rank-flip", format!("index {}: {:?} {:?}", i, fl.flip(), rk.flip()));
        }
        if rk.relative_to(Color::White) != rk || rk.relative_to(Color::Black) as usize != 7 - i {
            bad("C19:rank-relative", format!("rank {}", i));
        }
    }
    for i in 8..300usize {
        if File::try_index(i).is_some() || Rank::try_index(i).is_some() {
            bad("C19:try_index-out-of-range", format!("File/Rank::try_index({}) is Some", i));
        }
        if catch_unwind(|| File::index(i)).is_ok() || catch_unwind(|| Rank::index(i)).is_ok() {
            bad("C19:index-out-of-range", format!("File/Rank::index({}) did not panic", i));
        }
    }
    // indices far beyond the range, including ones whose low 8/16/32 bits name a variant
    for i in [256usize + 3, 65536 + 5, (1usize << 31) + 7, (1usize << 32), (1usize << 32) + 27, (1usize << 32) + 3, (1usize << 40) + 1, usize::MAX, usize::MAX - 7, usize::MAX / 2 + 1] {
        if Square::try_index(i).is_some() || File::try_index(i).is_some() || Rank::try_index(i).is_some() || Piece::try_index(i).is_some() || Color::try_index(i).is_some() {
            bad("C19:try_index-out-of-range", format!("try_index({}) is Some", i));
        }
        if catch_unwind(|| Square::index(i)).is_ok() || catch_unwind(|| File::index(i)).is_ok() || catch_unwind(|| Rank::index_const(i)).is_ok() || catch_unwind(|| Piece::index(i)).is_ok() {
            bad("C19:index-out-of-range", format!("index({}) did not panic", i));
        }
    }
    for i in 64..300usize {
        if Square::try_index(i).is_some() || catch_unwind(|| Square::index(i)).is_ok() {
            bad("C19:square-index-out-of-range", format!("Square::try_index/index({})", i));
        }
    }
    for (i, p) in Piece::ALL.iter().enumerate() {
        if *p as usize != i || Piece::try_index(i) != Some(*p) {
            bad("C19:piece-index", format!("{}", i));
        }
    }
    if Piece::try_index(6).is_some() || Color::try_index(2).is_some() || Color::ALL != [Color::White, Color::Black] || !Color::White != Color::Black || !Color::Black != Color::White {
        bad("C19:piece-colour-index", "Piece::try_index(6) / Color".into());
    }
    f
}

/// Every value formats to a text that parses back to it (all squares, files, ranks, pieces,
/// colours, and all 64x64x5 legally shaped moves).
pub fn check_format_parse() -> Vec<Failure> {
    let mut f = Vec::new();
    let mut bad = |sig: &str, msg: String| {
        if f.len() < 8 {
            f.push(fail(sig, msg));
        }
    };
    for s in 0..64u8 {
        let q = lsq(s);
        let t = q.to_string();
        if t != sq_name(s) || t.parse::<Square>().ok() != Some(q) {
            bad("C19:square-format-parse", format!("{} formats as '{}'", sq_name(s), t));
        }
    }
    for i in 0..8usize {
        let (fl, rk) = (File::index(i), Rank::index(i));
        let (ft, rt) = (fl.to_string(), rk.to_string());
        if ft != ((b'a' + i as u8) as char).to_string() || ft.parse::<File>().ok() != Some(fl) || char::from(fl).to_string() != ft || File::try_from((b'a' + i as u8) as char).ok() != Some(fl) {
            bad("C19:file-format-parse", format!("file {} formats as '{}'", i, ft));
        }
        if rt != ((b'1' + i as u8) as char).to_string() || rt.parse::<Rank>().ok() != Some(rk) || char::from(rk).to_string() != rt || Rank::try_from((b'1' + i as u8) as char).ok() != Some(rk) {
            bad("C19:rank-format-parse", format!("rank {} formats as '{}'", i, rt));
        }
    }
    for (p, c) in Piece::ALL.iter().zip(['p', 'n', 'b', 'r', 'q', 'k']) {
        if p.to_string() != c.to_string() || c.to_string().parse::<Piece>().ok() != Some(*p) || Piece::try_from(c).ok() != Some(*p) || char::from(*p) != c {
            bad("C19:piece-format-parse", format!("{:?}", p));
        }
    }
    for (p, c) in Color::ALL.iter().zip(['w', 'b']) {
        if p.to_string() != c.to_string() || c.to_string().parse::<Color>().ok() != Some(*p) || Color::try_from(c).ok() != Some(*p) || char::from(*p) != c {
            bad("C19:colour-format-parse", format!("{:?}", p));
        }
    }
    for from in 0..64u8 {
        for to in 0..64u8 {
            for promo in [None, Some(Kind::N), Some(Kind::B), Some(Kind::R), Some(Kind::Q)] {
                let rm = RMove { from, to, promo };
                let m = lmove(rm);
                let t = m.to_string();
                if t != rm.text() {
                    bad("C19:move-format", format!("move {} formats as '{}'", rm.text(), t));
                }
                if t.parse::<Move>().ok() != Some(m) {
                    bad("C19:move-format-parse", format!("'{}' does not parse back to the move it was formatted from: {:?}", t, t.parse::<Move>().ok()));
                }
            }
        }
    }
    // TryFrom<char>: accepted exactly for the characters formatting produces
    for cp in 0..0x110000u32 {
        let Some(c) = char::from_u32(cp) else { continue };
        if File::try_from(c).is_ok() != ('a'..='h').contains(&c) {
            bad("C19:file-try-from-char", format!("File::try_from({:?})", c));
        }
        if Rank::try_from(c).is_ok() != ('1'..='8').contains(&c) {
            bad("C19:rank-try-from-char", format!("Rank::try_from({:?})", c));
        }
        if Piece::try_from(c).is_ok() != "pnbrqk".contains(c) {
            bad("C19:piece-try-from-char", format!("Piece::try_from({:?})", c));
        }
        if Color::try_from(c).is_ok() != "wb".contains(c) {
            bad("C19:colour-try-from-char", format!("Color::try_from({:?})", c));
        }
    }
    f
}

/// For one string: none of the six parsers may panic, and an accepted text must format back to itself.
pub fn check_string(s: &str) -> CaseResult {
    let mk = |sig: &str, msg: String| fail(sig, msg).with("text_hex", hex_encode(s.as_bytes()));
    macro_rules! one {
        ($ty:ty, $name:expr) => {{
            match catch_unwind(AssertUnwindSafe(|| s.parse::<$ty>())) {
                Err(p) => return Err(mk(&format!("C19:{}-parse-panics", $name), format!("{}::from_str({:?}) panicked: {}", $name, s, panic_text(p)))),
                Ok(Ok(v)) => {
                    let back = v.to_string();
                    if back != s {
                        return Err(mk(&format!("C19:{}-accepts-noncanonical-text", $name), format!("{}::from_str({:?}) = Ok({:?}) which formats as {:?}, not as the accepted text", $name, s, v, back)));
                    }
                    true
                }
                Ok(Err(_)) => false,
            }
        }};
    }
    let a = one!(Square, "Square");
    let b = one!(File, "File");
    let c = one!(Rank, "Rank");
    let d = one!(Piece, "Piece");
    let e = one!(Color, "Color");
    let f = one!(Move, "Move");
    let _ = (a, b, c, d, e, f);
    Ok(())
}

pub fn accepted_by_any(s: &str) -> bool {
    s.parse::<Square>().is_ok() || s.parse::<File>().is_ok() || s.parse::<Rank>().is_ok() || s.parse::<Piece>().is_ok() || s.parse::<Color>().is_ok() || s.parse::<Move>().is_ok()
}

const ALPHABET: [char; 16] = ['a', 'b', 'h', '1', '2', '8', 'q', 'n', 'k', 'p', 'w', 'A', ' ', '\u{e9}', '0', '9'];

fn arb_valid_text() -> impl Strategy<Value = String> {
    prop_oneof![
        3 => (0u8..64, 0u8..64, 0u8..5).prop_map(|(f, t, p)| RMove { from: f, to: t, promo: [None, Some(Kind::N), Some(Kind::B), Some(Kind::R), Some(Kind::Q)][p as usize] }.text()),
        1 => (0u8..64).prop_map(sq_name),
        1 => (0u8..8).prop_map(|f| file_char(f).to_string()),
        1 => (0u8..8).prop_map(|r| ((b'1' + r) as char).to_string()),
        1 => prop_oneof![Just("p"), Just("n"), Just("b"), Just("r"), Just("q"), Just("k"), Just("w")].prop_map(|s| s.to_string()),
    ]
}

fn arb_mutated_text() -> impl Strategy<Value = String> {
    (arb_valid_text(), 0u8..12, any::<u16>(), prop_oneof![Just('k'), Just('p'), Just('K'), Just('Q'), Just('q'), Just(' '), Just('\u{e9}'), Just('\u{1F600}'), Just('x'), Just('1'), Just('a'), Just('\0'), Just('='), Just('\u{212A}'), Just('\u{17F}'), Just('\u{131}'), Just('\u{161}'), any::<char>()]).prop_map(|(t, kind, pos, c)| {
        let chars: Vec<char> = t.chars().collect();
        let i = (pos as usize * (chars.len() + 1)) >> 16;
        let mut out: Vec<char> = chars.clone();
        match kind {
            0 => out.push(c),
            1 => {
                out.pop();
            }
            2 => {
                if i < out.len() {
                    out[i] = if out[i].is_ascii_uppercase() { out[i].to_ascii_lowercase() } else { out[i].to_ascii_uppercase() };
                }
            }
            3 => out.insert(i, c),
            4 => {
                if i < out.len() {
                    out[i] = c;
                }
            }
            5 => {
                if i < out.len() {
                    out.remove(i);
                }
            }
            6 => {
                out.push(c);
                out.push(c);
            }
            7 => out.insert(0, ' '),
            8 => out.extend("xyz".chars()),
            10 | 11 => {
                // padded with a plausible character to a total BYTE length just past a power of
                // 256 (a length that was narrowed to u8 / u16 wraps to a small one)
                let base = if kind == 10 { 256usize } else if pos % 4 == 0 { 65536 } else { 512 };
                let target = base + pos as usize % 7;
                let pad = if c.len_utf8() == 1 && c != '\0' { c } else { 'q' };
                let mut bytes: usize = out.iter().map(|x| x.len_utf8()).sum();
                while bytes < target {
                    out.push(pad);
                    bytes += 1;
                }
            }
            _ => {
                // promotion letter k / p on a 4-character move
                if out.len() == 4 {
                    out.push(if pos % 2 == 0 { 'k' } else { 'p' });
                }
            }
        }
        out.into_iter().collect()
    })
}

pub fn run(ctx: &Ctx) -> Report {
    let mut rep = Report::new(ctx);
    rep.rule = "Exhaustive: Square::try_offset for all 64 squares x 256 x 256 offset pairs against i32 arithmetic under catch_unwind (this binary's build profile; the check runs in the overflow-checked and the unchecked build); Square::offset panics exactly when try_offset is None for all offsets in -9..=9 squared plus extreme offsets; new/file/rank/flips/relative_to/index functions for all values; format-then-parse for all squares, files, ranks, pieces, colours and all 64x64x5 legally shaped moves; TryFrom<char> over every Unicode scalar value; all strings of length <= 5 over a 16-symbol alphabet (valid letters/digits, upper case, space, digit 0/9, a two-byte character) through all six FromStr impls. Generated: mutations of valid texts (append, truncate, case swap, insert/replace/delete, doubled tail, leading space, 'xyz' tail, k/p promotion letter, padding to a byte length of 256..262 / 512..518 / 65536..65542), arbitrary Unicode strings. Oracle for strings: no panic; Ok(v) implies v.to_string() == s. Non-trivial = accepted string or mutation of a valid text; distinct by string hash / by construction for enumerations.".into();
    rep.assumptions = vec!["string space beyond length 5 / the small alphabet is sampled".into()];
    rep.exhaustive = Some(true);
    rep.exhaustive_note = Some("try_offset over its whole domain in this build profile; all enum values; all short strings over the 16-symbol alphabet".into());
    rep.required_classes = vec!["accepted-string", "mutated-valid-text", "arbitrary-unicode"];

    // try_offset: exhaustive
    rep.add(run_sharded(|shard, st| {
        let mut fails = Vec::new();
        for s in (shard as u8..64).step_by(SHARDS) {
            for df in i8::MIN..=i8::MAX {
                for dr in i8::MIN..=i8::MAX {
                    st.eval(1);
                    let near = (-9..=9).contains(&df) && (-9..=9).contains(&dr);
                    let extreme = (df == i8::MAX || df == i8::MIN || df == 121 || df == -128) && (dr == i8::MAX || dr == i8::MIN || dr == 0);
                    if on_board(file_of(s) + df as i32, rank_of(s) + dr as i32) || near {
                        st.nontrivial_enumerated += 1;
                    }
                    if let Err(f) = check_offset(s, df, dr, near || extreme) {
                        if fails.len() < 3 {
                            fails.push(f);
                        }
                    }
                }
            }
        }
        if shard == 0 {
            st.samples.push("H1.try_offset(127, 0), A1.try_offset(-128, -128), D4.try_offset(1, 2), ... (all 64 x 256 x 256)".into());
            st.class("try_offset-exhaustive");
        }
        fails
    }));
    let mut tables = PartResult::empty();
    tables.stats.eval(64 * 5 + 8 * 6 + 64 * 64 * 5 + 0x110000 * 4);
    tables.stats.nontrivial_enumerated += 64 * 64 * 5;
    tables.failures.extend(check_coordinates());
    tables.failures.extend(check_format_parse());
    rep.add(tables);

    // short strings: exhaustive over the alphabet
    rep.add(run_sharded(|shard, st| {
        let mut fails = Vec::new();
        let n = ALPHABET.len();
        for len in 0..=5usize {
            let total = n.pow(len as u32);
            for idx in (shard..total).step_by(SHARDS) {
                let mut x = idx;
                let mut s = String::new();
                for _ in 0..len {
                    s.push(ALPHABET[x % n]);
                    x /= n;
                }
                st.eval(1);
                if accepted_by_any(&s) {
                    st.nontrivial_enumerated += 1;
                    st.class("accepted-string");
                    st.sample(|| format!("{:?}", s));
                }
                if let Err(f) = check_string(&s) {
                    if fails.len() < 3 {
                        fails.push(f);
                    }
                }
            }
        }
        fails
    }));
    // generated strings
    let cases = ctx.tier.scale(400_000, 25);
    rep.add(run_prop(ctx, "mutated", cases, arb_mutated_text, |s: &String, st: &mut Stats| {
        st.eval(1);
        st.class("mutated-valid-text");
        st.class_if(accepted_by_any(s), "accepted-string");
        st.nontrivial(fnv(s.as_bytes()));
        st.sample(|| format!("{:?}", s));
        check_string(s)
    }));
    rep.add(run_prop(ctx, "unicode", cases / 4, || prop_oneof![any::<String>(), "\\PC{0,8}", "[a-h1-8qnrbkpw ]{0,7}"], |s: &String, st: &mut Stats| {
        st.eval(1);
        st.class("arbitrary-unicode");
        if accepted_by_any(s) {
            st.class("accepted-string");
            st.nontrivial(fnv(s.as_bytes()));
        }
        st.sample(|| format!("{:?}", s));
        check_string(s)
    }));
    rep
}

pub fn replay(m: &ReplayMap) -> CaseResult {
    if let Some(h) = m.get("text_hex") {
        let bytes = hex_decode(h).ok_or_else(|| fail("bad-replay", "bad hex".into()))?;
        let s = String::from_utf8(bytes).map_err(|_| fail("bad-replay", "not utf-8".into()))?;
        return check_string(&s);
    }
    if let (Some(sqn), Some(df), Some(dr)) = (m.get("square"), m.get("df"), m.get("dr")) {
        let s = RMove::parse(&format!("{}a1", sqn)).map(|mv| mv.from).ok_or_else(|| fail("bad-replay", "square".into()))?;
        return check_offset(s, df.parse().unwrap_or(0), dr.parse().unwrap_or(0), m.get("mode").is_some());
    }
    if let Some(f) = check_coordinates().into_iter().chain(check_format_parse()).next() {
        return Err(f);
    }
    Ok(())
}
