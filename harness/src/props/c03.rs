//! C03 - incrementally tracked checkers and pins always equal their definition.
use super::*;
use cozy_chess::*;
use proptest::prelude::*;

pub fn check_board(v: &Visit) -> CaseResult {
    let want_checkers = v.pos.checkers_mask();
    let want_pinned = v.pos.pinned_mask();
    if v.board.checkers().0 != want_checkers {
        return Err(v.fail("C03:checkers", format!("{}: checkers() = {:#018x}, attackers of the mover's king = {:#018x}", v.describe(), v.board.checkers().0, want_checkers)));
    }
    if v.board.pinned().0 != want_pinned {
        return Err(v.fail("C03:pinned", format!("{}: pinned() = {:#018x}, definition gives {:#018x}", v.describe(), v.board.pinned().0, want_pinned)));
    }
    match BoardBuilder::from_board(v.board).build() {
        Ok(fresh) => {
            if &fresh != v.board {
                return Err(v.fail("C03:not-equal-to-rebuilt", format!("{}: board != BoardBuilder::from_board(board).build() (checkers {:?}/{:?}, pinned {:?}/{:?}, hash {}/{})", v.describe(), v.board.checkers(), fresh.checkers(), v.board.pinned(), fresh.pinned(), v.board.hash(), fresh.hash())));
            }
        }
        Err(e) => return Err(v.fail("C03:rebuild-rejected", format!("{}: builder rejects a board reached by play: {:?}", v.describe(), e))),
    }
    let text = format!("{:#}", v.board);
    match Board::from_fen(&text, true) {
        Ok(parsed) => {
            if &parsed != v.board {
                return Err(v.fail("C03:not-equal-to-reparsed", format!("{}: board != from_fen(format(board))", v.describe())));
            }
        }
        Err(e) => return Err(v.fail("C03:reparse-rejected", format!("{}: parser rejects '{}': {:?}", v.describe(), text, e))),
    }
    Ok(())
}

fn visit(v: &Visit, st: &mut Stats) -> CaseResult {
    st.eval(1);
    let c = v.pos.checkers_mask();
    let p = v.pos.pinned_mask();
    let special = match v.step {
        Step::Null => Some("after-null-move"),
        Step::Move(_) if !v.hist.is_empty() => None,
        _ => None,
    };
    if let Some(s) = special {
        st.class(s);
    }
    st.class(match c.count_ones() {
        0 => "checkers=0",
        1 => "checkers=1",
        _ => "checkers>=2",
    });
    st.class_if(p != 0, "pinned-nonempty");
    {
        // how many of the previous mover's sliders stand on lines through the mover's king
        let k = v.pos.king_sq(v.pos.stm).unwrap();
        let n = (0..64u8)
            .filter(|&s| matches!(v.pos.board[s as usize], Some((kd, c)) if c != v.pos.stm && matches!(kd, Kind::R | Kind::B | Kind::Q)
                && ((matches!(kd, Kind::R | Kind::Q) && (file_of(s) == file_of(k) || rank_of(s) == rank_of(k))) || (matches!(kd, Kind::B | Kind::Q) && (file_of(s) - file_of(k)).abs() == (rank_of(s) - rank_of(k)).abs()))))
            .count();
        st.class_if(n >= 9, "nine-or-more-aligned-sliders");
        st.class_if(n >= 9 && c != 0, "nine-or-more-aligned-sliders-and-check");
    }
    let own: u64 = (0..64).filter(|&s| matches!(v.pos.board[s], Some((_, c)) if c == v.pos.stm)).fold(0, |m, s| m | 1u64 << s);
    st.class_if(p & !own != 0, "enemy-piece-on-pin-line");
    st.class_if(!v.hist.is_empty(), "reached-by-history");
    if c != 0 || p != 0 || *v.step == Step::Null {
        st.nontrivial(fnv(format!("{}|{}", v.pos.to_fen(true), v.step.text()).as_bytes()));
    }
    st.sample(|| format!("{} checkers={:#x} pinned={:#x}", v.describe(), c, p));
    check_board(v)
}

/// How the last move relates to check: used to make sure discovered / promotion / castle /
/// en-passant checks are actually generated.
fn classify_last(prev: &Pos, m: RMove, now: &Pos, st: &mut Stats) {
    let cls = move_class(prev, m);
    let checkers = now.checkers_mask();
    if checkers == 0 {
        return;
    }
    let dest = match cls {
        "castle" => None,
        _ => Some(m.to),
    };
    let direct = dest.map(|d| checkers & (1u64 << d) != 0).unwrap_or(false);
    let discovered = checkers & !dest.map(|d| 1u64 << d).unwrap_or(0) != 0;
    st.class_if(direct, "check-by-moved-piece");
    st.class_if(discovered && cls != "castle", "discovered-check");
    st.class_if(cls == "castle", "check-by-castling");
    st.class_if(cls == "en-passant", "check-after-en-passant");
    st.class_if(cls == "en-passant" && discovered, "discovered-check-by-en-passant");
    st.class_if(m.promo == Some(Kind::N) && direct, "check-by-knight-promotion");
    st.class_if(m.promo.is_some() && m.promo != Some(Kind::N), "check-after-slider-promotion");
    st.class_if(checkers.count_ones() == 2, "double-check-by-move");
}

#[derive(Clone, Debug)]
struct Transpo {
    start: Start,
    pre: Vec<Op>,
    sels: [u16; 4],
}

pub fn transpositions(ctx: &Ctx, cases: u32, prefix: &'static str) -> PartResult {
    run_prop(
        ctx,
        "transpositions",
        cases,
        || (arb_start(2, 4, 3), proptest::collection::vec(arb_op(), 0..12), any::<[u16; 4]>()).prop_map(|(start, pre, sels)| Transpo { start, pre, sels }),
        |t: &Transpo, st: &mut Stats| {
            let Some((b0, origin)) = start_board(&t.start) else {
                st.count("rejected-by-library", 1);
                return Ok(());
            };
            // advance to the base position
            let mut base = b0.clone();
            let mut hist: Vec<String> = Vec::new();
            let _ = walk::<()>(b0, &t.pre, |b, _p, _s, h| {
                base = b.clone();
                hist = h.to_vec();
                Ok(())
            });
            let p0 = pos_of_board(&base);
            if !well_formed(&base, &p0) {
                return Ok(());
            }
            // choose a, x, b, y by selectors on the reference model; require the order b, x, a, y to be legal too
            let pick = |p: &Pos, sel: u16| -> Option<RMove> {
                let l = p.legal_moves();
                if l.is_empty() {
                    None
                } else {
                    Some(l[(sel as usize * l.len()) >> 16])
                }
            };
            let Some(a) = pick(&p0, t.sels[0]) else { return Ok(()) };
            let p1 = p0.make(a);
            let Some(x) = pick(&p1, t.sels[1]) else { return Ok(()) };
            let p2 = p1.make(x);
            let Some(b) = pick(&p2, t.sels[2]) else { return Ok(()) };
            let p3 = p2.make(b);
            let Some(y) = pick(&p3, t.sels[3]) else { return Ok(()) };
            let p4 = p3.make(y);
            if a == b {
                st.count("transposition-unavailable", 1);
                return Ok(());
            }
            // other order
            let mut q = p0.clone();
            for m in [b, x, a, y] {
                if !q.legal_moves().contains(&m) {
                    st.count("transposition-unavailable", 1);
                    return Ok(());
                }
                q = q.make(m);
            }
            let same_pos = q.board == p4.board && q.stm == p4.stm && q.rights == p4.rights && q.ep == p4.ep;
            if !same_pos {
                st.count("transposition-unavailable", 1);
                return Ok(());
            }
            st.eval(1);
            st.class("transposition-pair");
            st.nontrivial(fnv(format!("T|{}|{}{}{}{}", p0.to_fen(true), a.text(), x.text(), b.text(), y.text()).as_bytes()));
            st.sample(|| format!("{}: [{} {} {} {}] vs [{} {} {} {}]", p0.to_fen(true), a.text(), x.text(), b.text(), y.text(), b.text(), x.text(), a.text(), y.text()));
            let mut b1 = base.clone();
            for m in [a, x, b, y] {
                b1.play(lmove(m));
            }
            let mut b2 = base.clone();
            for m in [b, x, a, y] {
                b2.play(lmove(m));
            }
            // clocks may legitimately differ (a pawn move or capture at a different ply); equalise them
            st.class_if(q.hm != p4.hm, "transposition-clocks-differ");
            b2.set_halfmove_clock(b1.halfmove_clock());
            b2.set_fullmove_number(b1.fullmove_number());
            if b1 != b2 || b1.checkers() != b2.checkers() || b1.pinned() != b2.pinned() || b1.hash() != b2.hash() {
                return Err(Failure::new(&format!("{}:transposition-not-equal", prefix), format!("from {} (start {} ops [{}]): [{} {} {} {}] and [{} {} {} {}] reach the same position but the boards compare unequal", p0.to_fen(true), origin, hist.join(","), a.text(), x.text(), b.text(), y.text(), b.text(), x.text(), a.text(), y.text()))
                    .with("start", origin)
                    .with("ops", hist.join(","))
                    .with("route_a", format!("{},{},{},{}", a.text(), x.text(), b.text(), y.text()))
                    .with("route_b", format!("{},{},{},{}", b.text(), x.text(), a.text(), y.text())));
            }
            Ok(())
        },
    )
}

pub fn run(ctx: &Ctx) -> Report {
    let mut rep = Report::new(ctx);
    rep.rule = "Histories (moves biased to checks/captures/castles/promotions/EP, null moves, clock setters) from DFRC starts, seed FENs and constructed boards; after EVERY op checkers() and pinned() are compared with the reference definitions, and the whole board with ==  against BoardBuilder::from_board(b).build() and from_fen(format!(\"{:#}\", b)). Plus commuting four-ply transposition pairs compared with == directly. Non-trivial = checkers or pinned non-empty after the op, or the op was a null move / a transposition pair; distinct by hash of (FEN, last op).".into();
    rep.assumptions = vec!["reference attackers()/pinned_mask() implement the wording of C03".into()];
    rep.required_classes = vec![
        "checkers=1", "checkers>=2", "pinned-nonempty", "enemy-piece-on-pin-line", "after-null-move", "discovered-check", "check-by-castling",
        "check-after-en-passant", "discovered-check-by-en-passant", "nine-or-more-aligned-sliders-and-check", "check-by-knight-promotion", "check-after-slider-promotion", "transposition-pair",
    ];
    let cases = ctx.tier.scale(120_000, 25);
    // keep track of the previous position to classify how a check arose
    rep.add(run_prop(
        ctx,
        "walk",
        cases,
        || arb_case(2, 3, 5, 80),
        |case: &PosCase, st: &mut Stats| {
            let Some((board, origin)) = start_board(&case.start) else {
                st.count("rejected-by-library", 1);
                return Ok(());
            };
            let mut prev: Option<Pos> = None;
            walk(board, &case.ops, |b, p, step, hist| {
                if !well_formed(b, p) {
                    st.count("skipped-malformed-board", 1);
                    return Ok(());
                }
                if let (Some(pp), Step::Move(m)) = (&prev, step) {
                    classify_last(pp, *m, p, st);
                }
                prev = Some(p.clone());
                visit(&Visit { board: b, pos: p, step, hist, origin: &origin }, st)
            })
        },
    ));
    rep.add(transpositions(ctx, ctx.tier.scale(60_000, 25), "C03"));
    rep
}

pub fn replay(m: &ReplayMap) -> CaseResult {
    if let (Some(ra), Some(rb)) = (m.get("route_a"), m.get("route_b")) {
        let mut base: Option<Board> = None;
        replay_positions(m, |v| {
            base = Some(v.board.clone());
            Ok(())
        })?;
        let base = base.unwrap();
        let (mut b1, mut b2) = (base.clone(), base.clone());
        for t in ra.split(',') {
            b1.play(lmove(RMove::parse(t).unwrap()));
        }
        for t in rb.split(',') {
            b2.play(lmove(RMove::parse(t).unwrap()));
        }
        b2.set_halfmove_clock(b1.halfmove_clock());
        b2.set_fullmove_number(b1.fullmove_number());
        if b1 != b2 {
            return Err(Failure::new("C03:transposition-not-equal", "transposed routes give unequal boards".into()));
        }
        return Ok(());
    }
    replay_positions(m, |v| check_board(v))
}
