//! One module per property. Each exposes `run(&Ctx) -> Report` and `replay(&ReplayMap) -> CaseResult`.
use crate::bridge::*;
use crate::gen::*;
use crate::refmodel::*;
use crate::runner::*;
use cozy_chess::Board;

pub mod c01;
pub mod c02;
pub mod c03;
pub mod c04;
pub mod c05;
pub mod c06;
pub mod c07;
pub mod c08;
pub mod c09;
pub mod c10;
pub mod c11;
pub mod c12;
pub mod c13;
pub mod c14;
pub mod c15;
pub mod c16;
pub mod c17;
pub mod c18;
pub mod c19;
pub mod c20;

pub const IDS: [&str; 20] = ["C01", "C02", "C03", "C04", "C05", "C06", "C07", "C08", "C09", "C10", "C11", "C12", "C13", "C14", "C15", "C16", "C17", "C18", "C19", "C20"];

pub fn canonical_id(s: &str) -> Option<&'static str> {
    IDS.iter().copied().find(|i| i.eq_ignore_ascii_case(s))
}

/// Build configurations a property is decided in, with the tier each sub-run uses.
///
/// * `checked` (this orchestrating binary): always, at the requested tier.
/// * `checked-pext`: C01 and C05 always (their quantifier names both back ends); every other
///   position-level property in the thorough tier.
/// * `unchecked` (no overflow checks, no debug assertions): every property, because
///   `debug_assert!` with side effects and wrapping arithmetic only show there; at the requested
///   tier for the properties whose statement names build profiles or that are pure data
///   (C06 setters, C15 play, C17, C18, C19), at quick scale for the others.
pub fn builds_for(id: &str, tier: Tier) -> Vec<&'static str> {
    sub_runs(id, tier).into_iter().map(|(b, _)| b).collect()
}

pub fn sub_runs(id: &str, tier: Tier) -> Vec<(&'static str, Tier)> {
    let mut v = vec![("checked", tier)];
    let pext_always = ["C01", "C05"];
    let pext_thorough = ["C02", "C03", "C04", "C06", "C07", "C09", "C10", "C12", "C13", "C14", "C15", "C16", "C20"];
    if pext_always.contains(&id) || (tier == Tier::Thorough && pext_thorough.contains(&id)) {
        v.push(("checked-pext", tier));
    }
    let unchecked_full = ["C06", "C15", "C17", "C18", "C19"];
    v.push(("unchecked", if unchecked_full.contains(&id) { tier } else { Tier::Quick }));
    v
}

pub fn run(ctx: &Ctx) -> Report {
    match ctx.id {
        "C01" => c01::run(ctx),
        "C02" => c02::run(ctx),
        "C03" => c03::run(ctx),
        "C04" => c04::run(ctx),
        "C05" => c05::run(ctx),
        "C06" => c06::run(ctx),
        "C07" => c07::run(ctx),
        "C08" => c08::run(ctx),
        "C09" => c09::run(ctx),
        "C10" => c10::run(ctx),
        "C11" => c11::run(ctx),
        "C12" => c12::run(ctx),
        "C13" => c13::run(ctx),
        "C14" => c14::run(ctx),
        "C15" => c15::run(ctx),
        "C16" => c16::run(ctx),
        "C17" => c17::run(ctx),
        "C18" => c18::run(ctx),
        "C19" => c19::run(ctx),
        "C20" => c20::run(ctx),
        _ => unreachable!(),
    }
}

pub fn replay(id: &str, m: &ReplayMap) -> CaseResult {
    match id {
        "C01" => c01::replay(m),
        "C02" => c02::replay(m),
        "C03" => c03::replay(m),
        "C04" => c04::replay(m),
        "C05" => c05::replay(m),
        "C06" => c06::replay(m),
        "C07" => c07::replay(m),
        "C08" => c08::replay(m),
        "C09" => c09::replay(m),
        "C10" => c10::replay(m),
        "C11" => c11::replay(m),
        "C12" => c12::replay(m),
        "C13" => c13::replay(m),
        "C14" => c14::replay(m),
        "C15" => c15::replay(m),
        "C16" => c16::replay(m),
        "C17" => c17::replay(m),
        "C18" => c18::replay(m),
        "C19" => c19::replay(m),
        "C20" => c20::replay(m),
        _ => unreachable!(),
    }
}

/// Everything a per-position visitor gets to see.
pub struct Visit<'a> {
    pub board: &'a Board,
    pub pos: &'a Pos,
    pub step: &'a Step,
    pub hist: &'a [String],
    pub origin: &'a str,
}

impl<'a> Visit<'a> {
    pub fn fail(&self, sig: &str, msg: String) -> Failure {
        Failure::new(sig, msg).with("start", self.origin.to_string()).with("ops", self.hist.join(",")).with("fen", self.pos.to_fen(true))
    }
    pub fn describe(&self) -> String {
        format!("{} (start {} ops [{}])", self.pos.to_fen(true), self.origin, self.hist.join(","))
    }
}

pub fn well_formed(board: &Board, pos: &Pos) -> bool {
    accessors_consistent(board) && pos.count(Kind::K, Side::W) == 1 && pos.count(Kind::K, Side::B) == 1
}

/// Generic driver: generated (start, ops) cases; `visit` runs on the start board and after
/// every op. Boards the library rejects are counted and dropped; boards whose accessors are
/// not even self-consistent (only possible when `play` is broken) are counted and skipped.
pub fn positions<V>(ctx: &Ctx, part: &str, cases: u32, weights: (u32, u32, u32), max_ops: usize, visit: V) -> PartResult
where
    V: Fn(&Visit, &mut Stats) -> CaseResult + Sync,
{
    run_prop(
        ctx,
        part,
        cases,
        || arb_case(weights.0, weights.1, weights.2, max_ops),
        |case: &PosCase, st: &mut Stats| {
            let Some((board, origin)) = start_board(&case.start) else {
                st.count("rejected-by-library", 1);
                return Ok(());
            };
            st.count("cases-accepted", 1);
            match &case.start {
                Start::Built(_) => st.class("start-constructed"),
                Start::Edited(_) => st.class("start-edited-state"),
                Start::Seed(_) => st.class("start-seed-fen"),
                Start::Dfrc(..) => st.class("start-dfrc"),
            }
            walk(board, &case.ops, |b, p, step, hist| {
                if !well_formed(b, p) {
                    st.count("skipped-malformed-board", 1);
                    return Ok(());
                }
                st.class_if(*step == Step::Null, "after-null-move");
                visit(&Visit { board: b, pos: p, step, hist, origin: &origin }, st)
            })
        },
    )
}

/// Replay helper: rebuild the start board and history from a replay map and run `visit` on
/// every position of it.
pub fn replay_positions(m: &ReplayMap, mut visit: impl FnMut(&Visit) -> CaseResult) -> CaseResult {
    let start = m.get("start").ok_or_else(|| Failure::new("bad-replay", "no start".into()))?;
    let board = if let Some(rest) = start.strip_prefix("dfrc:") {
        let (w, b) = rest.split_once(',').ok_or_else(|| Failure::new("bad-replay", "bad dfrc".into()))?;
        Board::double_chess960_startpos(w.parse().unwrap_or(518), b.parse().unwrap_or(518))
    } else {
        board_from_text(start).ok_or_else(|| Failure::new("bad-replay", format!("library rejects start {}", start)))?
    };
    let ops = m.get("ops").cloned().unwrap_or_default();
    let origin = start.clone();
    replay_history(board, &ops, |b, p, step, hist| {
        if !well_formed(b, p) {
            return Ok(());
        }
        visit(&Visit { board: b, pos: p, step, hist, origin: &origin })
    })
}

pub fn move_class(p: &Pos, m: RMove) -> &'static str {
    let (k, _) = p.board[m.from as usize].unwrap();
    if p.is_castle(m) {
        "castle"
    } else if p.is_ep_capture(m) {
        "en-passant"
    } else if m.promo.is_some() {
        if p.board[m.to as usize].is_some() {
            "promotion-capture"
        } else {
            "promotion"
        }
    } else if p.board[m.to as usize].is_some() {
        "capture"
    } else if k == Kind::P && (rank_of(m.to) - rank_of(m.from)).abs() == 2 {
        "double-push"
    } else if k == Kind::K {
        "king-move"
    } else if k == Kind::R && rank_of(m.from) == p.stm.back_rank() && p.rights[p.stm.idx()].contains(&Some(file_of(m.from) as u8)) {
        "rook-leaves-right-square"
    } else if k == Kind::P {
        "pawn-push"
    } else {
        "quiet"
    }
}
