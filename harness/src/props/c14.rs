//! C14 - null move is offered exactly when not in check and only passes the turn.
use super::*;

pub fn check_board(v: &Visit) -> CaseResult {
    let want = v.pos.null();
    let got = v.board.null_move();
    match (&got, &want) {
        (None, None) => Ok(()),
        (Some(_), None) => Err(v.fail("C14:null-allowed-in-check", format!("{}: null_move() returned a board although the mover is in check", v.describe()))),
        (None, Some(_)) => Err(v.fail("C14:null-refused-without-check", format!("{}: null_move() refused although the mover is not in check", v.describe()))),
        (Some(g), Some(w)) => {
            let gp = pos_of_board(g);
            if let Some(d) = super::c02::compare_fields(&gp, w) {
                return Err(v.fail("C14:null-successor-differs", format!("{} after null move: {}", v.describe(), d)));
            }
            // hash, checkers and pins: compare with a freshly constructed board of that position
            let fresh = build(&RawState::from_pos(w));
            match fresh {
                None => Err(v.fail("C14:null-successor-not-constructible", format!("{}: builder rejects the position after the null move ({})", v.describe(), w.to_fen(true)))),
                Some(f) => {
                    if &f != g || f.hash() != g.hash() || f.checkers() != g.checkers() || f.pinned() != g.pinned() || f.hash_without_ep() != g.hash_without_ep() {
                        return Err(v.fail(
                            "C14:null-successor-not-equal-to-fresh",
                            format!("{} after null move: result != freshly built board (hash {}/{}, checkers {:?}/{:?}, pinned {:?}/{:?})", v.describe(), g.hash(), f.hash(), g.checkers(), f.checkers(), g.pinned(), f.pinned()),
                        ));
                    }
                    if g.checkers().0 != w.checkers_mask() || g.pinned().0 != w.pinned_mask() {
                        return Err(v.fail("C14:null-successor-checkers-pins", format!("{} after null move: checkers/pinned differ from the definition", v.describe())));
                    }
                    Ok(())
                }
            }
        }
    }
}

fn visit(v: &Visit, st: &mut Stats) -> CaseResult {
    st.eval(1);
    let want = v.pos.null();
    match &want {
        None => st.class("refused-in-check"),
        Some(w) => {
            st.class("allowed");
            let pins = w.pinned_mask() != 0;
            st.class_if(v.pos.ep.is_some(), "ep-file-was-set");
            st.class_if(pins, "new-mover-has-pins");
            st.class_if(v.pos.hm >= 99, "halfmove-clock>=99");
            st.class_if(v.pos.fm >= 65534 && v.pos.stm == Side::B, "fullmove-cap-black");
            st.class_if(v.hist.iter().any(|h| h == "null"), "history-with-earlier-null");
            if v.pos.ep.is_some() || pins || v.pos.hm >= 99 || v.pos.fm >= 65534 {
                st.nontrivial(pos_hash(v.pos));
            }
        }
    }
    st.sample(|| format!("{} -> {}", v.describe(), want.as_ref().map(|w| w.to_fen(true)).unwrap_or("refused".into())));
    check_board(v)
}

pub fn run(ctx: &Ctx) -> Report {
    let mut rep = Report::new(ctx);
    rep.rule = "Every position along generated histories that interleave null moves with legal moves (clocks near caps via setters and constructed clocks); null_move() must be None exactly when the reference says the mover is in check, otherwise equal (==, hash, hash_without_ep, checkers, pinned) to a board freshly built through the builder from the reference successor (same placement and rights, other side, no EP, clock+1 capped at 100, move number +1 after Black capped at 65535) and field-wise equal to it. Non-trivial = mover not in check and (EP was set, or the new mover has pins, or a clock is at its cap); distinct by FEN hash.".into();
    rep.assumptions = vec!["reference null() encodes C14".into()];
    rep.required_classes = vec!["refused-in-check", "ep-file-was-set", "new-mover-has-pins", "halfmove-clock>=99", "fullmove-cap-black", "history-with-earlier-null"];
    let cases = ctx.tier.scale(150_000, 25);
    rep.add(positions(ctx, "walk", cases, (2, 3, 6), 50, visit));
    rep
}

pub fn replay(m: &ReplayMap) -> CaseResult {
    let want = m.get("fen").cloned();
    replay_positions(m, |v| {
        if let Some(f) = &want {
            if &v.pos.to_fen(true) != f {
                return Ok(());
            }
        }
        check_board(v)
    })
}
