//! C01 - move generation yields exactly the legal moves of the position.
use crate::bridge::*;
use crate::gen::*;
use crate::refmodel::*;
use crate::runner::*;
use cozy_chess::*;

/// The oracle: generated move multiset == reference legal move set, each move once; every
/// batch non-empty with `piece` equal to the piece on `from`.
pub fn check_board(board: &Board, pos: &Pos, origin: &str, hist: &[String]) -> CaseResult {
    let fail = |sig: &str, msg: String| -> Failure {
        Failure::new(sig, msg).with("start", origin.to_string()).with("ops", hist.join(",")).with("fen", pos.to_fen(true))
    };
    let mut batches: Vec<PieceMoves> = Vec::new();
    let ret = board.generate_moves(|pm| {
        batches.push(pm);
        false
    });
    if ret {
        return Err(fail("C01:returned-true", "generate_moves returned true although the listener never aborted".into()));
    }
    let mut got: Vec<RMove> = Vec::new();
    for pm in &batches {
        let want_piece = pos.board[msq(pm.from) as usize];
        if want_piece.map(|(k, _)| lkind(k)) != Some(pm.piece) || want_piece.map(|(_, s)| s) != Some(pos.stm) {
            return Err(fail("C01:batch-piece", format!("batch {:?} from {} does not match the piece on that square ({:?})", pm.piece, pm.from, want_piece)));
        }
        for m in *pm {
            got.push(mmove(m));
        }
    }
    got.sort_unstable();
    let want = pos.legal_moves();
    if got != want {
        let missing: Vec<String> = want.iter().filter(|m| !got.contains(m)).map(|m| m.text()).collect();
        let extra: Vec<String> = got.iter().filter(|m| !want.contains(m)).map(|m| m.text()).collect();
        let mut dups: Vec<String> = Vec::new();
        for w in got.windows(2) {
            if w[0] == w[1] {
                dups.push(w[0].text());
            }
        }
        let sig = if !extra.is_empty() {
            "C01:illegal-move-generated"
        } else if !missing.is_empty() {
            "C01:legal-move-missing"
        } else {
            "C01:duplicate-move"
        };
        return Err(fail(
            sig,
            format!("position {}: missing {:?}, extra {:?}, duplicated {:?}\n library: {:?}\n reference: {:?}", pos.to_fen(true), missing, extra, dups, got.iter().map(|m| m.text()).collect::<Vec<_>>(), want.iter().map(|m| m.text()).collect::<Vec<_>>()),
        ));
    }
    Ok(())
}

pub fn nontrivial(pos: &Pos, legal: &[RMove]) -> bool {
    pos.in_check(pos.stm) || pos.ep.is_some() || pos.rights[pos.stm.idx()] != [None, None] || pos.pseudo_moves().len() != legal.iter().filter(|m| !pos.is_castle(**m)).count()
}

fn visit(board: &Board, pos: &Pos, origin: &str, hist: &[String], st: &mut Stats) -> CaseResult {
    if !accessors_consistent(board) || pos.king_sq(Side::W).is_none() || pos.king_sq(Side::B).is_none() {
        st.count("skipped-malformed-board", 1);
        return Ok(());
    }
    st.eval(1);
    let legal = pos.legal_moves();
    classify(pos, st, &legal);
    if nontrivial(pos, &legal) {
        st.nontrivial(pos_hash(pos));
    }
    st.sample(|| format!("{} after [{}] from {}", pos.to_fen(true), hist.join(","), origin));
    check_board(board, pos, origin, hist)
}

pub fn run(ctx: &Ctx) -> Report {
    let mut rep = Report::new(ctx);
    rep.rule = "Boards: all 960 symmetric Chess960 starts + DFRC pairs (enumerated), and every position along generated histories (moves chosen among reference-legal moves with class bias, null moves, clock setters) from DFRC starts, seed FENs (repo valid.sfens) and builder-constructed positions (random material + castle/en-passant/pin/promotion/mate-net motifs). Oracle: multiset of generate_moves output == make-and-test reference legal move set. Non-trivial = mover in check, or EP file set, or mover has a castling right, or pseudo-legal != legal; distinct by Shredder-FEN hash.".into();
    rep.assumptions = vec![
        "reference model (validated at start-up against published perft counts) is the rule oracle".into(),
        "positions are sampled; only the start-position enumeration is exhaustive (all 960x960 pairs in the thorough tier)".into(),
    ];
    rep.required_classes = vec![
        "checkers=1", "checkers=2", "own-piece-pinned", "ep-capture-pseudo-but-illegal", "ep-capture-legal", "castle-legal",
        "castle-refused-through-attack", "castle-refused-blocked", "castle-refused-rook-uncovers-attack", "castle-king-does-not-move",
        "castle-rook-does-not-move", "castle-non-orthodox-files", "promotion-available", "checkmate", "stalemate", "ep-set:check-by-pushed-pawn", "ep-set:discovered-slider-check", "after-null-move",
    ];

    // (a) start positions
    let pairs: u32 = match ctx.tier {
        Tier::Quick => 4000,
        Tier::Thorough => 960 * 960,
    };
    let seed = ctx.seed;
    let tier = ctx.tier;
    rep.add(run_sharded(|shard, st| {
        let mut fails = Vec::new();
        let mut mix = Mix(shard_seed(seed, "C01", "dfrc", shard));
        let mut one = |w: u32, b: u32, st: &mut Stats| {
            let board = Board::double_chess960_startpos(w, b);
            let pos = pos_of_board(&board);
            let origin = format!("dfrc:{},{}", w, b);
            st.class("start-position");
            if let Err(f) = visit(&board, &pos, &origin, &[], st) {
                if fails.len() < 3 {
                    fails.push(f);
                }
            }
        };
        for w in (shard as u32..960).step_by(SHARDS) {
            one(w, w, st);
            if tier == Tier::Thorough {
                for b in 0..960 {
                    if b != w {
                        one(w, b, st);
                    }
                }
            }
        }
        if tier == Tier::Quick {
            for _ in 0..(pairs as usize / SHARDS) {
                let r = mix.next();
                one((r % 960) as u32, ((r >> 20) % 960) as u32, st);
            }
        }
        fails
    }));
    if ctx.tier == Tier::Thorough {
        rep.exhaustive = Some(true);
        rep.exhaustive_note = Some("all 960x960 double-Chess960 start positions; everything else sampled".into());
    }

    // (b) histories
    let cases = ctx.tier.scale(300_000, 25);
    rep.add(super::positions(ctx, "walk", cases, (2, 3, 6), 60, |v, st| visit(v.board, v.pos, v.origin, v.hist, st)));
    rep
}

pub fn replay(m: &ReplayMap) -> CaseResult {
    super::replay_positions(m, |v| check_board(v.board, v.pos, v.origin, v.hist))
}
