//! C16 - masked generation filters by origin square and honours the abort contract.
use super::*;
use cozy_chess::*;
use proptest::prelude::*;

#[derive(Clone, Debug)]
pub struct MaskCase {
    case: PosCase,
    /// (mask kind, raw bits)
    masks: Vec<(u8, u64)>,
    abort_at: Vec<u8>,
}

pub fn concrete_mask(board: &Board, kind: u8, raw: u64) -> (u64, &'static str) {
    let us = board.colors(board.side_to_move()).0;
    let king = board.colored_pieces(board.side_to_move(), Piece::King).0;
    match kind % 12 {
        0 => (raw, "random"),
        1 => (raw & (raw >> 7) & (raw << 9), "random-sparse"),
        2 => (raw | (raw >> 7) | (raw << 9), "random-dense"),
        3 => (0, "empty"),
        4 => (!0, "full"),
        5 => (1u64 << (raw & 63), "single-square"),
        6 => (us, "own-pieces"),
        7 => (board.pieces(Piece::ALL[(raw % 6) as usize]).0, "one-piece-kind"),
        8 => (!us, "complement-of-own"),
        9 => (king, "king-only"),
        10 => (!king, "all-but-king"),
        _ => (us & raw, "random-subset-of-own"),
    }
}

pub fn check_mask(v: &Visit, mask: u64, abort_at: Option<usize>) -> CaseResult {
    let fail = |sig: &str, msg: String| v.fail(sig, msg).with("mask", format!("{:#018x}", mask)).with("abort", abort_at.map(|a| a.to_string()).unwrap_or("never".into()));
    // full, never aborting run
    let mut batches: Vec<PieceMoves> = Vec::new();
    let ret = v.board.generate_moves_for(BitBoard(mask), |pm| {
        batches.push(pm);
        false
    });
    if ret {
        return Err(fail("C16:returned-true-without-abort", format!("{} mask {:#x}: generate_moves_for returned true although the listener never returned true", v.describe(), mask)));
    }
    if batches.len() > 18 {
        return Err(fail("C16:more-than-18-batches", format!("{} mask {:#x}: {} batches", v.describe(), mask, batches.len())));
    }
    let mut got: Vec<RMove> = Vec::new();
    for pm in &batches {
        if pm.is_empty() || pm.len() == 0 || pm.into_iter().next().is_none() {
            return Err(fail("C16:empty-batch", format!("{} mask {:#x}: an empty batch was handed to the listener ({:?})", v.describe(), mask, pm)));
        }
        got.extend(pm.into_iter().map(mmove));
    }
    got.sort_unstable();
    let want: Vec<RMove> = v.pos.legal_moves().into_iter().filter(|m| mask & (1u64 << m.from) != 0).collect();
    if got != want {
        let missing: Vec<String> = want.iter().filter(|m| !got.contains(m)).map(|m| m.text()).collect();
        let extra: Vec<String> = got.iter().filter(|m| !want.contains(m)).map(|m| m.text()).collect();
        return Err(fail("C16:masked-set-differs", format!("{} mask {:#x}: missing {:?}, extra {:?} (or duplicates: {} generated vs {} expected)", v.describe(), mask, missing, extra, got.len(), want.len())));
    }
    if mask == !0 {
        let mut plain: Vec<PieceMoves> = Vec::new();
        v.board.generate_moves(|pm| {
            plain.push(pm);
            false
        });
        if plain != batches {
            return Err(fail("C16:generate_moves-differs-from-full-mask", format!("{}: generate_moves and generate_moves_for(FULL) hand out different batch sequences", v.describe())));
        }
    }
    // aborting run
    if let Some(k) = abort_at {
        let mut seen: Vec<PieceMoves> = Vec::new();
        let mut calls = 0usize;
        let ret = v.board.generate_moves_for(BitBoard(mask), |pm| {
            seen.push(pm);
            calls += 1;
            calls == k + 1
        });
        let want_calls = (k + 1).min(batches.len());
        let want_ret = k < batches.len();
        if calls != want_calls {
            return Err(fail("C16:calls-after-abort", format!("{} mask {:#x}: listener returns true at call #{}; {} batches exist; listener was called {} times, expected {}", v.describe(), mask, k + 1, batches.len(), calls, want_calls)));
        }
        if ret != want_ret {
            return Err(fail("C16:abort-return-value", format!("{} mask {:#x}: abort at call #{} of {}: returned {}, expected {}", v.describe(), mask, k + 1, batches.len(), ret, want_ret)));
        }
        if seen[..] != batches[..want_calls] {
            return Err(fail("C16:abort-prefix", format!("{} mask {:#x}: batches seen before the abort are not a prefix of the full sequence", v.describe(), mask)));
        }
    }
    Ok(())
}

pub fn run(ctx: &Ctx) -> Report {
    let mut rep = Report::new(ctx);
    rep.rule = "Boards at the start and at the end of generated histories (incl. a 'crowded' motif: sixteen mobile men, both castling rights and two en-passant capturers, where the batch count reaches its maximum of 18) x 6 masks each (random, sparse, dense, empty, full, single square, own pieces, one piece kind, complement, king only, all but king, random subset of own) x an abort point (listener returns true at call k+1, k in 0..=20, or never). Without abort: multiset of moves == reference legal moves with origin in the mask, every batch non-empty, <= 18 batches, returns false; generate_moves == generate_moves_for(FULL). With abort: exactly min(k+1, total) calls, returns true iff the (k+1)-th call happened, batches seen are a prefix of the no-abort sequence. Non-trivial = mask selects some but not all movable pieces, or an abort actually fired; distinct by (FEN, mask, abort) hash.".into();
    rep.assumptions = vec!["reference legal moves".into()];
    rep.required_classes = vec!["mask-partial", "abort-fired", "abort-after-last", "mask-excludes-king", "mask-king-only", "ep-capture-legal", "abort-fired-at-last-batch", "batches>=17", "batches=18"];
    let cases = ctx.tier.scale(120_000, 25);
    rep.add(run_prop(
        ctx,
        "masks",
        cases,
        || {
            (arb_case(1, 3, 6, 30), proptest::collection::vec((0u8..12, any::<u64>()), 6), proptest::collection::vec(0u8..24, 6))
                .prop_map(|(case, masks, abort_at)| MaskCase { case, masks, abort_at })
        },
        |mc: &MaskCase, st: &mut Stats| {
            let Some((board, origin)) = start_board(&mc.case.start) else {
                st.count("rejected-by-library", 1);
                return Ok(());
            };
            // the first and the last position of the history are examined
            let mut first: Option<Board> = None;
            let mut last: Option<(Board, Vec<String>)> = None;
            let _ = walk::<()>(board, &mc.case.ops, |b, _p, _s, h| {
                if first.is_none() {
                    first = Some(b.clone());
                }
                last = Some((b.clone(), h.to_vec()));
                Ok(())
            });
            let (lb, lhist) = last.unwrap();
            let mut todo: Vec<(Board, Vec<String>)> = vec![(first.unwrap(), Vec::new())];
            if !lhist.is_empty() {
                todo.push((lb, lhist));
            }
            for (b, hist) in todo {
            let pos = pos_of_board(&b);
            if !well_formed(&b, &pos) {
                return Ok(());
            }
            let v = Visit { board: &b, pos: &pos, step: &Step::Start, hist: &hist, origin: &origin };
            let legal = pos.legal_moves();
            classify(&pos, st, &legal);
            let movable: u64 = legal.iter().fold(0, |m, mv| m | 1u64 << mv.from);
            let total_batches = {
                let mut n = 0;
                b.generate_moves(|_| {
                    n += 1;
                    false
                });
                n
            };
            st.class(&format!("batches={:02}", total_batches));
            st.class_if(total_batches >= 17, "batches>=17");
            for (i, &(kind, raw)) in mc.masks.iter().enumerate() {
                let (mask, name) = concrete_mask(&b, kind, raw);
                let abort_at = if mc.abort_at[i] > 20 { None } else { Some(mc.abort_at[i] as usize) };
                st.eval(1);
                st.class(name);
                let sel = mask & movable;
                let partial = sel != 0 && sel != movable;
                st.class_if(partial, "mask-partial");
                let king = 1u64 << pos.king_sq(pos.stm).unwrap();
                st.class_if(mask & king == 0 && movable & king != 0 && sel != 0, "mask-excludes-king");
                st.class_if(mask == king, "mask-king-only");
                let n_batches_for_mask = {
                    let mut n = 0usize;
                    b.generate_moves_for(BitBoard(mask), |_| {
                        n += 1;
                        false
                    });
                    n
                };
                let fired = abort_at.map(|k| k < n_batches_for_mask).unwrap_or(false);
                st.class_if(fired, "abort-fired");
                st.class_if(abort_at.map(|k| k + 1 == n_batches_for_mask).unwrap_or(false), "abort-fired-at-last-batch");
                st.class_if(abort_at.map(|k| k >= n_batches_for_mask).unwrap_or(false), "abort-after-last");
                if partial || fired {
                    st.nontrivial(fnv(format!("{}|{:x}|{:?}", pos.to_fen(true), mask, abort_at).as_bytes()));
                }
                st.sample(|| format!("{} mask={:#018x} ({}) abort_at={:?}", v.describe(), mask, name, abort_at));
                check_mask(&v, mask, abort_at)?;
            }
            }
            Ok(())
        },
    ));
    rep
}

pub fn replay(m: &ReplayMap) -> CaseResult {
    let want = m.get("fen").cloned();
    let mask = m.get("mask").and_then(|s| u64::from_str_radix(s.trim_start_matches("0x"), 16).ok()).unwrap_or(!0);
    let abort = m.get("abort").and_then(|s| s.parse::<usize>().ok());
    replay_positions(m, |v| {
        if let Some(f) = &want {
            if &v.pos.to_fen(true) != f {
                return Ok(());
            }
        }
        check_mask(v, mask, abort)
    })
}
