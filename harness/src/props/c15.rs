//! C15 - checked play rejects exactly the illegal moves and leaves the board intact.
use super::c04::PROMOS;
use super::*;
use cozy_chess::*;
use std::collections::HashSet;
use std::panic::{catch_unwind, AssertUnwindSafe};

fn mv_text(m: Move) -> String {
    format!("{}{}{}", m.from, m.to, m.promotion.map(|p| char::from(p).to_string()).unwrap_or_default())
}

pub fn check_try_play(v: &Visit, legal: &HashSet<RMove>, m: Move) -> CaseResult {
    let want_ok = legal.contains(&mmove(m));
    let mut b = v.board.clone();
    let r = b.try_play(m);
    if r.is_ok() != want_ok {
        return Err(v.fail(if want_ok { "C15:try_play-rejects-legal" } else { "C15:try_play-accepts-illegal" }, format!("{}: try_play({}) is {:?} but the move is {}", v.describe(), mv_text(m), r.is_ok(), if want_ok { "legal" } else { "illegal" })).with("move", mv_text(m)));
    }
    if want_ok {
        let mut c = v.board.clone();
        c.play_unchecked(m);
        if b != c || b.hash() != c.hash() {
            return Err(v.fail("C15:try_play-differs-from-unchecked", format!("{}: try_play({}) and play_unchecked give different boards", v.describe(), mv_text(m))).with("move", mv_text(m)));
        }
    } else if &b != v.board
        || b.hash() != v.board.hash()
        || b.checkers() != v.board.checkers()
        || b.pinned() != v.board.pinned()
        || b.halfmove_clock() != v.board.halfmove_clock()
        || b.fullmove_number() != v.board.fullmove_number()
        // the text form is compared on a sample (== above already covers every field)
        || ((m.from as usize * 64 + m.to as usize) % 61 == 0 && format!("{:#}", b) != format!("{:#}", v.board))
    {
        return Err(v.fail("C15:failed-try_play-changed-board", format!("{}: try_play({}) failed but the board changed to {:#}", v.describe(), mv_text(m), b)).with("move", mv_text(m)));
    }
    Ok(())
}

pub fn check_play(v: &Visit, legal: &HashSet<RMove>, m: Move) -> CaseResult {
    let want_ok = legal.contains(&mmove(m));
    let mut b = v.board.clone();
    let r = catch_unwind(AssertUnwindSafe(|| b.play(m)));
    if r.is_ok() != want_ok {
        return Err(v.fail(if want_ok { "C15:play-panics-on-legal" } else { "C15:play-accepts-illegal" }, format!("{}: play({}) {} but the move is {}", v.describe(), mv_text(m), if r.is_ok() { "returned" } else { "panicked" }, if want_ok { "legal" } else { "illegal" })).with("move", mv_text(m)).with("mode", "play"));
    }
    if want_ok {
        let mut c = v.board.clone();
        c.play_unchecked(m);
        if b != c {
            return Err(v.fail("C15:play-differs-from-unchecked", format!("{}: play({}) and play_unchecked give different boards", v.describe(), mv_text(m))).with("move", mv_text(m)).with("mode", "play"));
        }
    }
    Ok(())
}

pub fn check_board(v: &Visit, st: Option<&mut Stats>, illegal_sel: u64) -> CaseResult {
    let legal: HashSet<RMove> = v.pos.legal_moves().into_iter().collect();
    for from in Square::ALL {
        for to in Square::ALL {
            for promotion in PROMOS {
                check_try_play(v, &legal, Move { from, to, promotion })?;
            }
        }
    }
    // play(): every legal move must go through; a handful of illegal ones must panic. (Each
    // illegal call costs an unwound panic, and unwinding is serialised process-wide, so the
    // number is kept small: try_play above already covers every move value.) Near-legal values
    // first: legal origin/destination with a wrong promotion field, then spread values.
    let mut n_illegal = 0u64;
    let mut mix = Mix(illegal_sel ^ pos_hash(v.pos));
    let legal_vec: Vec<RMove> = v.pos.legal_moves();
    for &m in &legal_vec {
        check_play(v, &legal, lmove(m))?;
    }
    for _ in 0..4 {
        if legal_vec.is_empty() {
            break;
        }
        let r = mix.next();
        let m = legal_vec[(r % legal_vec.len() as u64) as usize];
        let alt = Move { promotion: PROMOS[((r >> 32) % 7) as usize], ..lmove(m) };
        if !legal.contains(&mmove(alt)) {
            check_play(v, &legal, alt)?;
            n_illegal += 1;
        }
    }
    for _ in 0..6 {
        let r = mix.next();
        let m = Move { from: Square::index((r & 63) as usize), to: Square::index(((r >> 6) & 63) as usize), promotion: PROMOS[((r >> 12) % 7) as usize] };
        if !legal.contains(&mmove(m)) {
            check_play(v, &legal, m)?;
            n_illegal += 1;
        }
    }
    if let Some(st) = st {
        st.count("play-calls-legal", legal.len() as u64);
        st.count("play-calls-illegal", n_illegal);
    }
    Ok(())
}

fn visit(v: &Visit, st: &mut Stats) -> CaseResult {
    if v.hist.len() % 4 != 0 {
        return Ok(());
    }
    st.eval(64 * 64 * 7);
    st.count("boards", 1);
    let legal = v.pos.legal_moves();
    classify(v.pos, st, &legal);
    if v.pos.in_check(v.pos.stm) || v.pos.pinned_mask() != 0 || v.pos.ep.is_some() || v.pos.rights[v.pos.stm.idx()] != [None, None] {
        st.nontrivial(pos_hash(v.pos));
    }
    st.sample(|| format!("{} x all 28672 move values (try_play) + play on legal and selected illegal moves", v.describe()));
    check_board(v, Some(st), 0)
}

pub fn check_near_legal(v: &Visit) -> CaseResult {
    let legal: HashSet<RMove> = v.pos.legal_moves().into_iter().collect();
    for rm in super::c04::near_legal_moves(v.pos) {
        check_try_play(v, &legal, lmove(rm))?;
    }
    Ok(())
}

pub fn run(ctx: &Ctx) -> Report {
    let mut rep = Report::new(ctx);
    rep.rule = "Boards from generated histories; for each sampled board try_play is called with ALL 64x64x7 move values on a clone: Ok exactly for reference-legal moves; on Ok the clone equals a clone advanced by play_unchecked; on Err the clone equals the original (==, hash, checkers, pinned, clocks, text). play() is called under catch_unwind with every legal move and with illegal moves (up to four legal moves with a wrong promotion field, plus six spread values per board): it must panic exactly on the illegal ones. A second, focused part calls try_play only with the near-legal values (every pseudo-legal move incl. the illegal ones, king-to-own-rook candidates, promotion field varied) on EVERY position of ten times as many histories. evaluations = try_play calls; non-trivial boards as in C04.".into();
    rep.assumptions = vec!["legality is judged by the reference model, not by the library".into(), "the illegal values for play() are derived from the position hash (deterministic)".into()];
    rep.required_classes = vec!["checkers=1", "checkers=2", "own-piece-pinned", "ep-file-set", "castle-legal", "promotion-available"];
    let cases = ctx.tier.scale(24_000, 25);
    rep.add(positions(ctx, "walk", cases, (1, 3, 6), 24, visit));
    // focused sweep: try_play on the near-legal move values of EVERY position of many more histories
    rep.add(positions(ctx, "near-legal", ctx.tier.scale(150_000, 25), (2, 3, 7), 40, |v, st| {
        st.eval(super::c04::near_legal_moves(v.pos).len() as u64);
        st.count("boards-near-legal-sweep", 1);
        ep_check_classes(v.pos, st);
        if v.pos.in_check(v.pos.stm) || v.pos.pinned_mask() != 0 || v.pos.ep.is_some() {
            st.nontrivial(pos_hash(v.pos) ^ 0x5555);
        }
        check_near_legal(v)
    }));
    rep
}

pub fn replay(m: &ReplayMap) -> CaseResult {
    let want = m.get("fen").cloned();
    replay_positions(m, |v| {
        if let Some(f) = &want {
            if &v.pos.to_fen(true) != f {
                return Ok(());
            }
        }
        check_board(v, None, 0)?;
        check_near_legal(v)
    })
}
