//! C02 - playing a legal move produces the rule-correct successor position.
use super::*;

pub fn compare_fields(got: &Pos, want: &Pos) -> Option<String> {
    for s in 0..64usize {
        if got.board[s] != want.board[s] {
            return Some(format!("square {}: library {:?}, rules {:?}", sq_name(s as u8), got.board[s], want.board[s]));
        }
    }
    if got.stm != want.stm {
        return Some(format!("side to move: library {:?}, rules {:?}", got.stm, want.stm));
    }
    if got.rights != want.rights {
        return Some(format!("castling rights [side][short,long]: library {:?}, rules {:?}", got.rights, want.rights));
    }
    if got.ep != want.ep {
        return Some(format!("en-passant file: library {:?}, rules {:?}", got.ep, want.ep));
    }
    if got.hm != want.hm {
        return Some(format!("half-move clock: library {}, rules {}", got.hm, want.hm));
    }
    if got.fm != want.fm {
        return Some(format!("full-move number: library {}, rules {}", got.fm, want.fm));
    }
    None
}

pub fn check_move(v: &Visit, m: RMove) -> CaseResult {
    let fail = |sig: &str, msg: String| v.fail(sig, msg).with("move", m.text());
    let want = v.pos.make(m);
    let lm = lmove(m);
    let mut a = v.board.clone();
    a.play(lm);
    let got = pos_of_board(&a);
    if let Some(d) = compare_fields(&got, &want) {
        return Err(fail("C02:successor-differs", format!("{} play {}: {}", v.describe(), m.text(), d)));
    }
    let text = format!("{:#}", a);
    if text != want.to_fen(true) {
        return Err(fail("C02:successor-text", format!("{} play {}: Display gives '{}', rules give '{}'", v.describe(), m.text(), text, want.to_fen(true))));
    }
    let mut b = v.board.clone();
    if b.try_play(lm).is_err() {
        return Err(fail("C02:try-play-refused-legal", format!("{}: try_play refused legal move {}", v.describe(), m.text())));
    }
    let mut c = v.board.clone();
    c.play_unchecked(lm);
    if a != b || a != c || a.hash() != b.hash() || a.hash() != c.hash() {
        return Err(fail("C02:play-variants-disagree", format!("{} move {}: play / try_play / play_unchecked give different boards", v.describe(), m.text())));
    }
    Ok(())
}

fn visit(v: &Visit, st: &mut Stats) -> CaseResult {
    let legal = v.pos.legal_moves();
    let near_cap = v.pos.hm >= 99 || v.pos.fm >= 65534;
    st.class_if(v.pos.hm >= 99, "halfmove-clock>=99");
    st.class_if(v.pos.fm >= 65534 && v.pos.stm == Side::B, "fullmove-number-at-cap-black-to-move");
    for &m in &legal {
        st.eval(1);
        let cls = move_class(v.pos, m);
        st.class(cls);
        if cls == "castle" {
            let k = file_of(m.from);
            let r = file_of(m.to);
            st.class_if(!(k == 4 && (r == 0 || r == 7)), "castle-non-orthodox");
            st.class_if(k == if r > k { 6 } else { 2 }, "castle-king-stays");
            st.class_if(r == if r > k { 5 } else { 3 }, "castle-rook-stays");
            st.class_if((r > k && k == 5 && r == 6) || (r < k && k == 3 && r == 2), "castle-king-rook-swap");
        }
        if let Some(pk) = m.promo {
            let owned = v.pos.board.iter().filter(|&&x| x == Some((pk, v.pos.stm))).count();
            st.class_if(owned >= 9, "promotion-to-a-kind-the-mover-owns-nine-or-more-of");
            st.class_if(owned >= 10, "promotion-to-a-kind-the-mover-owns-ten-or-more-of");
        }
        if cls == "capture" || cls == "promotion-capture" {
            let them = v.pos.stm.other();
            if rank_of(m.to) == them.back_rank() && v.pos.rights[them.idx()].contains(&Some(file_of(m.to) as u8)) {
                st.class("capture-on-right-square");
            }
        }
        if cls != "quiet" && cls != "pawn-push" || near_cap {
            st.nontrivial(fnv(format!("{}|{}", v.pos.to_fen(true), m.text()).as_bytes()));
        }
        st.sample(|| format!("{} play {} -> {}", v.pos.to_fen(true), m.text(), v.pos.make(m).to_fen(true)));
        check_move(v, m)?;
    }
    Ok(())
}

pub fn run(ctx: &Ctx) -> Report {
    let mut rep = Report::new(ctx);
    rep.rule = "For every position along generated histories (DFRC starts, seed FENs, constructed/motif boards, clocks near their caps) EVERY reference-legal move is played on a clone with play, try_play and play_unchecked; the successor is compared field by field (64 squares, side, rights, EP file, both clocks) and as Shredder text with the reference model's successor. evaluations = (position, move) pairs. Non-trivial = capture, castle, en passant, promotion, double push, king move, rook leaving a right's square, or a clock within 1 of its cap; distinct by hash of (FEN, move).".into();
    rep.assumptions = vec!["reference model make() encodes the rules of C02 (validated indirectly by the perft self-test, which exercises make on millions of nodes)".into()];
    rep.required_classes = vec![
        "castle", "en-passant", "promotion", "promotion-capture", "capture", "double-push", "king-move", "rook-leaves-right-square",
        "capture-on-right-square", "castle-non-orthodox", "castle-king-stays", "castle-rook-stays", "halfmove-clock>=99", "fullmove-number-at-cap-black-to-move", "promotion-to-a-kind-the-mover-owns-ten-or-more-of",
    ];
    let cases = ctx.tier.scale(40_000, 25);
    rep.add(positions(ctx, "walk", cases, (2, 3, 6), 40, visit));
    rep
}

pub fn replay(m: &ReplayMap) -> CaseResult {
    let want_fen = m.get("fen").cloned();
    let mv = m.get("move").and_then(|t| RMove::parse(t));
    replay_positions(m, |v| {
        if let (Some(f), Some(mv)) = (&want_fen, mv) {
            if &v.pos.to_fen(true) == f && v.pos.legal_moves().contains(&mv) {
                return check_move(v, mv);
            }
            return Ok(());
        }
        for mv in v.pos.legal_moves() {
            check_move(v, mv)?;
        }
        Ok(())
    })
}
