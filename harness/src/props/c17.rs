//! C17 - a move batch iterates, counts and tests membership consistently.
use super::c04::PROMOS;
use super::*;
use cozy_chess::*;
use proptest::prelude::*;

#[derive(Clone, Debug)]
pub struct BatchCase {
    piece: u8,
    from: u8,
    to: u64,
    consumed: u8,
    other_a: u8,
    other_b: u8,
}

pub fn arb_bits() -> impl Strategy<Value = u64> {
    let r18: u64 = 0xFF000000000000FF;
    prop_oneof![
        2 => any::<u64>(),
        2 => (any::<u64>(), any::<u64>()).prop_map(|(a, b)| a & b),
        2 => (any::<u64>(), any::<u64>(), any::<u64>()).prop_map(|(a, b, c)| a & b & c),
        1 => (any::<u64>(), any::<u64>()).prop_map(|(a, b)| a | b),
        2 => (0u8..64).prop_map(|s| 1u64 << s),
        2 => (any::<u64>(), any::<u64>()).prop_map(move |(a, b)| (a & r18) | (a & b & !r18)),
        1 => any::<u64>().prop_map(move |a| a & r18),
        1 => any::<u64>().prop_map(move |a| a & !r18),
        1 => Just(0u64),
        1 => Just(!0u64),
        1 => (0u8..8).prop_map(|r| 0xFFu64 << (8 * r)),
        1 => (0u8..8).prop_map(|f| 0x0101010101010101u64 << f),
    ]
}

pub fn model(piece: Piece, from: Square, to: u64) -> Vec<Move> {
    let mut out = Vec::new();
    for s in 0..64u8 {
        if to & (1u64 << s) == 0 {
            continue;
        }
        let dst = lsq(s);
        if piece == Piece::Pawn && (s < 8 || s >= 56) {
            for p in [Piece::Knight, Piece::Bishop, Piece::Rook, Piece::Queen] {
                out.push(Move { from, to: dst, promotion: Some(p) });
            }
        } else {
            out.push(Move { from, to: dst, promotion: None });
        }
    }
    out
}

fn it_clone_from(pm: PieceMoves, taken: usize) -> PieceMovesIter {
    let mut it = pm.into_iter();
    for _ in 0..taken {
        it.next();
    }
    it
}

fn taken_of(it: &PieceMovesIter, total: usize) -> usize {
    total - it.len()
}

pub fn check_batch(piece: Piece, from: Square, to: u64, consumed: usize, others: [Square; 2]) -> CaseResult {
    let pm = PieceMoves { piece, from, to: BitBoard(to) };
    let fail = |sig: &str, msg: String| {
        Failure::new(sig, format!("PieceMoves {{ {:?}, from {}, to {:#018x} }}: {}", piece, from, to, msg))
            .with("piece", format!("{:?}", piece))
            .with("from", from.to_string())
            .with("to", format!("{:#018x}", to))
            .with("consumed", consumed.to_string())
            .with("others", format!("{},{}", others[0], others[1]))
    };
    let want = model(piece, from, to);
    let got: Vec<Move> = pm.into_iter().collect();
    let mut got_sorted = got.clone();
    let key = |m: &Move| (m.to as usize, m.promotion.map(|p| p as usize + 1).unwrap_or(0));
    got_sorted.sort_by_key(key);
    let mut want_sorted = want.clone();
    want_sorted.sort_by_key(key);
    if got_sorted != want_sorted {
        return Err(fail("C17:iteration-differs", format!("iteration yields {} moves {:?}..., enumeration expects {} moves", got.len(), got.iter().take(6).map(|m| m.to_string()).collect::<Vec<_>>(), want.len())));
    }
    if pm.len() != want.len() {
        return Err(fail("C17:len", format!("len() = {}, enumeration has {}", pm.len(), want.len())));
    }
    if pm.is_empty() != want.is_empty() {
        return Err(fail("C17:is_empty", format!("is_empty() = {}, enumeration has {} moves", pm.is_empty(), want.len())));
    }
    // partially consumed iterator
    let mut it = pm.into_iter();
    let mut taken = 0usize;
    loop {
        let remaining = want.len() - taken;
        if it.len() != remaining || it.size_hint() != (remaining, Some(remaining)) {
            return Err(fail("C17:iterator-len", format!("after {} next() calls: len() = {}, size_hint = {:?}, {} moves remain", taken, it.len(), it.size_hint(), remaining)));
        }
        if taken >= consumed {
            break;
        }
        if it.next().is_none() {
            break;
        }
        taken += 1;
    }
    // nth on the partially consumed iterator, including out of range, and the state it leaves
    {
        let mut it2 = it_clone_from(pm, taken);
        for k in [0usize, 2, 5, 300] {
            let before = want.len() - taken_of(&it2, want.len());
            let _ = before;
            let pos = want.len() - it2.len();
            let nth = it2.nth(k);
            let expect = got.get(pos + k).copied(); // the order plain next() produces; no order is prescribed
            if nth != expect {
                return Err(fail("C17:iterator-nth", format!("nth({}) at position {} = {:?}, stepping with next() gives {:?}", k, pos, nth, expect)));
            }
            let remaining = want.len().saturating_sub(pos + k + 1);
            if it2.len() != remaining {
                return Err(fail("C17:iterator-nth", format!("after nth({}) at position {} len() = {}, {} moves remain", k, pos, it2.len(), remaining)));
            }
        }
    }
    // every Iterator method on a fresh / partially consumed / exhausted iterator against plain next()
    {
        let bits = crate::bridge::fnv(&[to.to_le_bytes().as_slice(), &[consumed as u8, from as u8, piece as u8]].concat());
        for round in 0..2u32 {
            let steps = if round == 0 { vec![crate::iterproto::Step::TakeCount(consumed)] } else { crate::iterproto::steps_from(bits, got.len()) };
            if let Err(e) = crate::iterproto::check(&|| pm.into_iter(), &got, &steps, true) {
                return Err(fail("C17:iterator-protocol", e));
            }
        }
    }
    let rest = it.count();
    if taken + rest != want.len() {
        return Err(fail("C17:iterator-count", format!("{} taken + {} remaining != {}", taken, rest, want.len())));
    }
    // membership
    for origin in [from, others[0], others[1]] {
        for dst in Square::ALL {
            for promotion in PROMOS {
                let m = Move { from: origin, to: dst, promotion };
                let w = want.contains(&m);
                if pm.has(m) != w {
                    return Err(fail(if w { "C17:has-false-for-yielded" } else { "C17:has-true-for-unyielded" }, format!("has({}{}{:?}) = {}, but iteration {} it", origin, dst, promotion, pm.has(m), if w { "yields" } else { "never yields" })).with("query", format!("{}{}{:?}", origin, dst, promotion)));
                }
            }
        }
    }
    Ok(())
}

pub fn run(ctx: &Ctx) -> Report {
    let mut rep = Report::new(ctx);
    rep.rule = "PieceMoves { piece, from, to } for generated (piece in 6 kinds, origin in 64 squares, destination set from a bit-pattern generator with extra weight on ranks 1/8, mixed promotion/non-promotion sets, single bits, empty/full) plus k = number of next() calls already made. Model: destinations ascending, four promotion moves (N,B,R,Q) for a pawn on rank 1/8, one plain move otherwise. Checked: iteration multiset, len(), is_empty(), ExactSizeIterator::len()/size_hint after each of the first k steps, nth() (incl. out of range) against plain next() stepping, the iterator protocol (count, last, collect, fold, for_each, nth at and past the end, position, all, skip/step_by, size_hint on the iterator after a short generated program of next/nth/take steps, also exhausted), and has(m) for ALL 64 destinations x 7 promotion values for the batch origin and two other origins (1344 queries per batch). Non-trivial = pawn batch with a back-rank destination, or partially consumed iterator (k>0 and moves left); distinct by hash of (piece, from, to, k).".into();
    rep.assumptions = vec!["the model enumeration is the statement of C17".into()];
    rep.required_classes = vec!["pawn-with-backrank-destination", "pawn-mixed-promotion-and-plain", "non-pawn-with-backrank-destination", "empty-batch", "partially-consumed"];
    let cases = ctx.tier.scale(160_000, 30);
    rep.add(run_prop(
        ctx,
        "batches",
        cases,
        || {
            (prop_oneof![3 => Just(0u8), 2 => 1u8..6], 0u8..64, arb_bits(), prop_oneof![Just(0u8), 0u8..12, 0u8..80], 0u8..64, 0u8..64)
                .prop_map(|(piece, from, to, consumed, other_a, other_b)| BatchCase { piece, from, to, consumed, other_a, other_b })
        },
        |c: &BatchCase, st: &mut Stats| {
            let piece = Piece::ALL[c.piece as usize];
            let r18: u64 = 0xFF000000000000FF;
            st.eval(1);
            st.count("has-queries", 3 * 64 * 7);
            let pawn_promo = piece == Piece::Pawn && c.to & r18 != 0;
            st.class_if(pawn_promo, "pawn-with-backrank-destination");
            st.class_if(pawn_promo && c.to & !r18 != 0, "pawn-mixed-promotion-and-plain");
            st.class_if(piece != Piece::Pawn && c.to & r18 != 0, "non-pawn-with-backrank-destination");
            st.class_if(c.to == 0, "empty-batch");
            let total = model(piece, lsq(c.from), c.to).len();
            let partial = c.consumed > 0 && (c.consumed as usize) < total;
            st.class_if(partial, "partially-consumed");
            if pawn_promo || partial {
                st.nontrivial(fnv(format!("{}|{}|{:x}|{}", c.piece, c.from, c.to, c.consumed).as_bytes()));
            }
            st.sample(|| format!("{:?} from {} to {:#018x}, {} next() calls, other origins {} {}", piece, lsq(c.from), c.to, c.consumed, lsq(c.other_a), lsq(c.other_b)));
            check_batch(piece, lsq(c.from), c.to, c.consumed as usize, [lsq(c.other_a), lsq(c.other_b)])
        },
    ));
    rep
}

pub fn replay(m: &ReplayMap) -> CaseResult {
    let bad = || Failure::new("bad-replay", "malformed C17 replay".into());
    let piece = match m.get("piece").map(|s| s.as_str()) {
        Some("Pawn") => Piece::Pawn,
        Some("Knight") => Piece::Knight,
        Some("Bishop") => Piece::Bishop,
        Some("Rook") => Piece::Rook,
        Some("Queen") => Piece::Queen,
        Some("King") => Piece::King,
        _ => return Err(bad()),
    };
    let from: Square = m.get("from").and_then(|s| s.parse().ok()).ok_or_else(bad)?;
    let to = m.get("to").and_then(|s| u64::from_str_radix(s.trim_start_matches("0x"), 16).ok()).ok_or_else(bad)?;
    let consumed = m.get("consumed").and_then(|s| s.parse().ok()).unwrap_or(0);
    let others: Vec<Square> = m.get("others").map(|s| s.split(',').filter_map(|t| t.parse().ok()).collect()).unwrap_or_default();
    let others = [others.first().copied().unwrap_or(Square::A1), others.get(1).copied().unwrap_or(Square::H8)];
    check_batch(piece, from, to, consumed, others)
}
