//! C04 - is_legal agrees with move generation for every conceivable move value.
use super::*;
use cozy_chess::*;
use std::collections::HashSet;

pub const PROMOS: [Option<Piece>; 7] = [None, Some(Piece::Pawn), Some(Piece::Knight), Some(Piece::Bishop), Some(Piece::Rook), Some(Piece::Queen), Some(Piece::King)];

pub fn check_board(v: &Visit) -> CaseResult {
    let mut generated: HashSet<Move> = HashSet::new();
    v.board.generate_moves(|pm| {
        for m in pm {
            generated.insert(m);
        }
        false
    });
    for from in Square::ALL {
        for to in Square::ALL {
            for promotion in PROMOS {
                let m = Move { from, to, promotion };
                let legal = v.board.is_legal(m);
                if legal != generated.contains(&m) {
                    let text = format!("{}{}{}", from, to, promotion.map(|p| char::from(p).to_string()).unwrap_or_default());
                    return Err(v
                        .fail(if legal { "C04:is_legal-true-for-ungenerated" } else { "C04:is_legal-false-for-generated" }, format!("{}: is_legal({}) = {} but generation {} that move", v.describe(), text, legal, if legal { "does not yield" } else { "yields" }))
                        .with("move", text));
                }
            }
        }
    }
    Ok(())
}

fn visit(v: &Visit, st: &mut Stats) -> CaseResult {
    // evaluate on the start board and on every third position of the history
    if v.hist.len() % 3 != 0 {
        return Ok(());
    }
    st.eval(64 * 64 * 7);
    st.count("boards", 1);
    let legal = v.pos.legal_moves();
    classify(v.pos, st, &legal);
    let nt = v.pos.in_check(v.pos.stm) || v.pos.pinned_mask() != 0 || v.pos.ep.is_some() || v.pos.rights[v.pos.stm.idx()] != [None, None];
    if nt {
        st.nontrivial(pos_hash(v.pos));
    }
    st.sample(|| format!("{} x all 28672 move values", v.describe()));
    check_board(v)
}

/// Near-legal move values of a board: every pseudo-legal move (legal or not), every king ->
/// own rook candidate, each also with the promotion field set to a queen, a king and (for
/// promotions) removed. These are the values where `is_legal` has to work hardest, at about
/// 1/200 of the cost of the full 28 672-value sweep.
pub fn near_legal_moves(p: &Pos) -> Vec<RMove> {
    let mut out: Vec<RMove> = Vec::new();
    let mut base = p.pseudo_moves();
    if let Some(k) = p.king_sq(p.stm) {
        for s in 0..64u8 {
            if p.board[s as usize] == Some((Kind::R, p.stm)) {
                base.push(RMove { from: k, to: s, promo: None });
            }
        }
    }
    for m in base {
        out.push(m);
        for promo in [None, Some(Kind::Q), Some(Kind::K), Some(Kind::P)] {
            if promo != m.promo {
                out.push(RMove { promo, ..m });
            }
        }
    }
    out.sort_unstable();
    out.dedup();
    out
}

pub fn check_near_legal(v: &Visit) -> CaseResult {
    let mut generated: HashSet<Move> = HashSet::new();
    v.board.generate_moves(|pm| {
        for m in pm {
            generated.insert(m);
        }
        false
    });
    for rm in near_legal_moves(v.pos) {
        let m = lmove(rm);
        let legal = v.board.is_legal(m);
        if legal != generated.contains(&m) {
            return Err(v
                .fail(if legal { "C04:is_legal-true-for-ungenerated" } else { "C04:is_legal-false-for-generated" }, format!("{}: is_legal({}) = {} but generation {} that move", v.describe(), rm.text(), legal, if legal { "does not yield" } else { "yields" }))
                .with("move", rm.text()));
        }
    }
    Ok(())
}

pub fn run(ctx: &Ctx) -> Report {
    let mut rep = Report::new(ctx);
    rep.rule = "Boards from generated histories (DFRC starts, seed FENs, constructed/motif boards); for each sampled board ALL 64x64x7 move values (promotion none, pawn, knight, bishop, rook, queen, king) are put to is_legal and compared with membership in the library's own generated move set. A second, focused part puts only the near-legal values (every pseudo-legal move, every king-to-own-rook candidate, each with the promotion field varied) to is_legal on EVERY position of ten times as many histories. evaluations = move values queried; distinct non-trivial = distinct boards where the mover is in check, has a piece on a pin line, an EP file or a castling right.".into();
    rep.assumptions = vec!["the generated set is taken from the library itself, as the property states (C01 ties generation to the rules)".into()];
    rep.required_classes = vec!["checkers=1", "checkers=2", "own-piece-pinned", "ep-capture-pseudo-but-illegal", "castle-legal", "castle-refused-through-attack", "promotion-available"];
    let cases = ctx.tier.scale(16_000, 25);
    rep.add(positions(ctx, "walk", cases, (1, 3, 6), 24, visit));
    // focused sweep: near-legal move values on EVERY position of many more histories
    rep.add(positions(ctx, "near-legal", ctx.tier.scale(150_000, 25), (2, 3, 7), 40, |v, st| {
        let n = near_legal_moves(v.pos).len() as u64;
        st.eval(n);
        st.count("boards-near-legal-sweep", 1);
        ep_check_classes(v.pos, st);
        if v.pos.in_check(v.pos.stm) || v.pos.pinned_mask() != 0 || v.pos.ep.is_some() {
            st.nontrivial(pos_hash(v.pos) ^ 0x5555);
        }
        check_near_legal(v)
    }));
    rep
}

pub fn replay(m: &ReplayMap) -> CaseResult {
    let want = m.get("fen").cloned();
    replay_positions(m, |v| {
        if let Some(f) = &want {
            if &v.pos.to_fen(true) != f {
                return Ok(());
            }
        }
        check_board(v)?;
        check_near_legal(v)
    })
}
