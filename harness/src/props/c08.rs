//! C08 - the FEN parser is total, strict about structure, and names the bad field.
use super::*;
use crate::gen2::*;
use cozy_chess::*;
use proptest::prelude::*;
use std::panic::{catch_unwind, AssertUnwindSafe};

#[derive(Clone, Copy, PartialEq, Eq, Debug)]
pub enum Mode {
    Plain,
    Shredder,
    FromStr,
}

pub fn parse_mode(s: &str, mode: Mode) -> std::thread::Result<Result<Board, FenParseError>> {
    catch_unwind(AssertUnwindSafe(|| match mode {
        Mode::Plain => Board::from_fen(s, false),
        Mode::Shredder => Board::from_fen(s, true),
        Mode::FromStr => s.parse::<Board>(),
    }))
}

fn denotes(s: &str, shredder: bool, board: &Board) -> Result<(), String> {
    match decode_fen(s, shredder) {
        Denote::BadStructure(why) => Err(format!("structure: {}", why)),
        Denote::Undecodable(why) => Err(format!("field not decodable: {}", why)),
        Denote::Pos(p) => {
            let got = pos_of_board(board);
            match super::c02::compare_fields(&got, &p) {
                None => Ok(()),
                Some(d) => Err(format!("board differs from the text: {}", d)),
            }
        }
    }
}

/// Totality, structural strictness and faithful decoding on one string.
pub fn check_string(s: &str) -> CaseResult {
    let mk = |sig: &str, msg: String| Failure::new(sig, msg).with("text_hex", hex_encode(s.as_bytes()));
    for mode in [Mode::Plain, Mode::Shredder, Mode::FromStr] {
        match parse_mode(s, mode) {
            Err(p) => return Err(mk("C08:parser-panics", format!("{:?} parse of {:?} panicked: {}", mode, s, panic_text(p)))),
            Ok(Err(_)) => {}
            Ok(Ok(board)) => {
                // structure first: independent of the notation
                if let Denote::BadStructure(why) = decode_fen(s, false) {
                    return Err(mk(&format!("C08:accepted-bad-structure:{}", why), format!("{:?} parse accepted {:?}, which is not six non-empty fields with eight ranks of eight files ({})", mode, s, why)));
                }
                let verdict = match mode {
                    Mode::Plain => denotes(s, false, &board),
                    Mode::Shredder => denotes(s, true, &board),
                    Mode::FromStr => denotes(s, false, &board).or_else(|_| denotes(s, true, &board)),
                };
                if let Err(why) = verdict {
                    return Err(mk("C08:board-not-denoted-by-text", format!("{:?} parse of {:?} returned '{:#}': {}", mode, s, board, why)));
                }
            }
        }
    }
    Ok(())
}

fn matches_expect(e: &FenParseError, x: Expect) -> bool {
    matches!(
        (e, x),
        (FenParseError::InvalidBoard, Expect::Board)
            | (FenParseError::InvalidSideToMove, Expect::Side)
            | (FenParseError::InvalidCastlingRights, Expect::Castling)
            | (FenParseError::InvalidEnPassant, Expect::EnPassant)
            | (FenParseError::InvalidHalfMoveClock, Expect::Halfmove)
            | (FenParseError::InvalidFullmoveNumber, Expect::Fullmove)
            | (FenParseError::MissingField, Expect::Missing)
            | (FenParseError::TooManyFields, Expect::TooMany)
    )
}

pub fn check_labelled(text: &str, shredder: bool, expect: Expect, label: &str) -> CaseResult {
    let mk = |sig: &str, msg: String| Failure::new(sig, msg).with("text_hex", hex_encode(text.as_bytes())).with("shredder", shredder.to_string()).with("expect", format!("{:?}", expect)).with("label", label.to_string());
    for mode in [if shredder { Mode::Shredder } else { Mode::Plain }, Mode::FromStr] {
        match parse_mode(text, mode) {
            Err(p) => return Err(mk("C08:parser-panics", format!("{:?} parse of {:?} panicked: {}", mode, text, panic_text(p)))),
            Ok(Ok(b)) => return Err(mk(&format!("C08:corrupted-record-accepted:{:?}", expect), format!("{:?} parse accepted {:?} (corruption: {}) as '{:#}'; expected an error naming {:?}", mode, text, label, b, expect))),
            Ok(Err(e)) => {
                if !matches_expect(&e, expect) {
                    return Err(mk(&format!("C08:wrong-error:{:?}-reported-as-{:?}", expect, e), format!("{:?} parse of {:?} (corruption: {}) reports {:?}; the malformed/unsupported field calls for {:?}", mode, text, label, e, expect)));
                }
            }
        }
    }
    Ok(())
}

#[derive(Clone, Debug)]
struct Labelled {
    case: PosCase,
    shredder: bool,
    corruption: Corruption,
}

pub fn run(ctx: &Ctx) -> Report {
    let mut rep = Report::new(ctx);
    rep.rule = "Totality/strictness/decoding: strings = canonical records (both notations) of constructed, edited, seed and start positions with 0..3 text mutations (delete/insert/replace over an alphabet with piece letters, digits 0-9, '/', space, '-', '+', file letters, NUL, tab, newline, multi-byte code points; drop/duplicate/swap ranks and fields; empty fields; clock extremes; appended fields; doubled and leading spaces; castling and EP noise) plus arbitrary Unicode strings; each goes through from_fen(false), from_fen(true) and FromStr under catch_unwind; whenever a board comes back the text must split into exactly six non-empty fields with eight ranks of eight files and a tolerant reference decoder (digit 0, leading '+'/zeros in clocks tolerated) must denote exactly the returned board. Attribution: labelled single-field corruptions of canonical records of ACCEPTED boards (placement: illegal character, rank of 7/9 files, 7/9 ranks, empty rank, empty field, semantically unsound placement; side; castling: malformed, duplicate, empty, mixed notation, well-formed but unsupported; EP: malformed, wrong rank, unsupported; clocks: empty, sign, letters, out of range; truncation to 1..5 fields; 1..3 appended fields) must be rejected with the variant naming that field, in the matching explicit mode and through FromStr. Non-trivial = string accepted, or rejected with a variant other than InvalidBoard; distinct by string hash.".into();
    rep.assumptions = vec![
        "tolerant reading where the property is silent: digit 0 in a rank, leading '+' or zeros in clock fields are not flagged".into(),
        "no expectation is attached to a well-formed side-to-move flip, to records with several defects, or to leading-space records".into(),
    ];
    rep.required_classes = vec![
        "accepted", "rejected:InvalidBoard", "rejected:InvalidSideToMove", "rejected:InvalidCastlingRights", "rejected:InvalidEnPassant", "rejected:InvalidHalfMoveClock",
        "rejected:InvalidFullmoveNumber", "rejected:MissingField", "rejected:TooManyFields", "label:Board", "label:Side", "label:Castling", "label:EnPassant", "label:Halfmove",
        "label:Fullmove", "label:Missing", "label:TooMany", "label:castling-wellformed-unsupported", "label:ep-wellformed-unsupported", "label:placement-semantic", "both-notations",
    ];
    let classify_string = |s: &str, st: &mut Stats| {
        match s.parse::<Board>() {
            Ok(_) => {
                st.class("accepted");
                st.nontrivial(fnv(s.as_bytes()));
            }
            Err(e) => {
                st.class(&format!("rejected:{:?}", e));
                if !matches!(e, FenParseError::InvalidBoard) {
                    st.nontrivial(fnv(s.as_bytes()));
                }
            }
        }
    };
    rep.add(run_prop(ctx, "mutated", ctx.tier.scale(400_000, 25), arb_fen_case, |fc: &FenCase, st: &mut Stats| {
        let s = fc.text();
        st.eval(1);
        classify_string(&s, st);
        st.sample(|| format!("{:?}", s));
        check_string(&s)
    }));
    rep.add(run_prop(ctx, "unicode", ctx.tier.scale(100_000, 25), || prop_oneof![any::<String>(), "\\PC{0,40}", "[pnbrqkPNBRQK1-8/]{0,50} [wb] [KQkqA-Ha-h-]{0,4} [a-h1-8-]{0,2} [0-9]{0,3} [0-9]{0,4}"], |s: &String, st: &mut Stats| {
        st.eval(1);
        st.class("arbitrary-string");
        classify_string(s, st);
        st.sample(|| format!("{:?}", s));
        check_string(s)
    }));
    rep.add(run_prop(
        ctx,
        "labelled",
        ctx.tier.scale(400_000, 25),
        || (arb_case(2, 3, 6, 12), any::<bool>(), arb_corruption()).prop_map(|(case, shredder, corruption)| Labelled { case, shredder, corruption }),
        |l: &Labelled, st: &mut Stats| {
            let Some((board, _origin)) = start_board(&l.case.start) else {
                st.count("rejected-by-library", 1);
                return Ok(());
            };
            let mut last = board.clone();
            let _ = walk::<()>(board, &l.case.ops, |b, _p, _s, _h| {
                last = b.clone();
                Ok(())
            });
            let p = pos_of_board(&last);
            if !well_formed(&last, &p) {
                return Ok(());
            }
            let shredder = l.shredder || !p.plain_fen_expressible();
            // the uncorrupted record must be accepted in both routes (also: "plain parsing accepts both notations")
            let record = p.to_fen(shredder);
            st.eval(1);
            let explicit = if shredder { Board::from_fen(&record, true) } else { Board::from_fen(&record, false) };
            match (&explicit, record.parse::<Board>()) {
                (Ok(a), Ok(b)) if a == &last && b == last => st.class("both-notations"),
                other => {
                    return Err(Failure::new("C08:canonical-record-not-parsed", format!("canonical {} record '{}' of an accepted board: explicit mode / FromStr give {:?}", if shredder { "Shredder" } else { "FEN" }, record, other.0.as_ref().map(|b| format!("{:#}", b)))).with("text_hex", hex_encode(record.as_bytes())));
                }
            }
            let Some((text, expect)) = corrupt(&p, shredder, &l.corruption) else {
                st.count("corruption-not-applicable", 1);
                return Ok(());
            };
            let label = format!("{:?}", l.corruption);
            st.class(&format!("label:{:?}", expect));
            st.class_if(matches!(l.corruption, Corruption::CastlingBad(v) if v as usize >= CASTLING_BAD.len()), "label:castling-wellformed-unsupported");
            st.class_if(matches!(l.corruption, Corruption::EpBad(v) if v as usize >= EP_BAD.len()), "label:ep-wellformed-unsupported");
            st.class_if(matches!(l.corruption, Corruption::PlacementSemantic(_)), "label:placement-semantic");
            st.nontrivial(fnv(text.as_bytes()));
            st.sample(|| format!("{:?} expect {:?} ({})", text, expect, label));
            check_labelled(&text, shredder, expect, &label)
        },
    ));
    rep
}

pub fn replay(m: &ReplayMap) -> CaseResult {
    let h = m.get("text_hex").ok_or_else(|| Failure::new("bad-replay", "no text".into()))?;
    let s = String::from_utf8(hex_decode(h).unwrap_or_default()).map_err(|_| Failure::new("bad-replay", "utf8".into()))?;
    if let Some(e) = m.get("expect") {
        let expect = match e.as_str() {
            "Board" => Expect::Board,
            "Side" => Expect::Side,
            "Castling" => Expect::Castling,
            "EnPassant" => Expect::EnPassant,
            "Halfmove" => Expect::Halfmove,
            "Fullmove" => Expect::Fullmove,
            "Missing" => Expect::Missing,
            _ => Expect::TooMany,
        };
        return check_labelled(&s, m.get("shredder").map(|x| x == "true").unwrap_or(true), expect, m.get("label").map(|x| x.as_str()).unwrap_or(""));
    }
    check_string(&s)
}
