//! C07 - FEN and Shredder-FEN text round-trips boards exactly and canonically.
use super::*;
use cozy_chess::*;
use proptest::prelude::*;

fn same(a: &Board, b: &Board) -> bool {
    a == b && a.hash() == b.hash() && a.checkers() == b.checkers() && a.pinned() == b.pinned() && a.halfmove_clock() == b.halfmove_clock() && a.fullmove_number() == b.fullmove_number() && a.en_passant() == b.en_passant()
}

pub fn check_board(v: &Visit) -> CaseResult {
    let shredder = format!("{:#}", v.board);
    let plain = format!("{}", v.board);
    // (3) canonical text
    if shredder != v.pos.to_fen(true) {
        return Err(v.fail("C07:shredder-text-not-canonical", format!("{}: format!(\"{{:#}}\") = '{}', canonical record is '{}'", v.describe(), shredder, v.pos.to_fen(true))));
    }
    if plain != v.pos.to_fen(false) {
        return Err(v.fail("C07:plain-text-not-canonical", format!("{}: format!(\"{{}}\") = '{}', canonical record is '{}'", v.describe(), plain, v.pos.to_fen(false))));
    }
    // (1) Shredder round trip
    for (mode, r) in [("from_fen(.., true)", Board::from_fen(&shredder, true)), ("FromStr", shredder.parse::<Board>())] {
        match r {
            Ok(b) if same(&b, v.board) => {}
            Ok(b) => return Err(v.fail("C07:shredder-roundtrip-differs", format!("{}: {} of '{}' gives a different board ('{:#}', hash {} vs {})", v.describe(), mode, shredder, b, b.hash(), v.board.hash()))),
            Err(e) => return Err(v.fail("C07:shredder-roundtrip-rejected", format!("{}: {} rejects the board's own text '{}': {:?}", v.describe(), mode, shredder, e))),
        }
    }
    // (2) plain FEN when every right is on the a/h file
    if v.pos.plain_fen_expressible() {
        for (mode, r) in [("from_fen(.., false)", Board::from_fen(&plain, false)), ("FromStr", plain.parse::<Board>())] {
            match r {
                Ok(b) if same(&b, v.board) => {}
                Ok(_) => return Err(v.fail("C07:plain-roundtrip-differs", format!("{}: {} of '{}' gives a different board", v.describe(), mode, plain))),
                Err(e) => return Err(v.fail("C07:plain-roundtrip-rejected", format!("{}: {} rejects the board's own text '{}': {:?}", v.describe(), mode, plain, e))),
            }
        }
    }
    Ok(())
}

pub fn check_pair(a: &Board, b: &Board, what: &str) -> CaseResult {
    let (ta, tb) = (format!("{:#}", a), format!("{:#}", b));
    if (a == b) != (ta == tb) {
        return Err(Failure::new("C07:equality-vs-text", format!("{}: boards equal = {}, Shredder texts equal = {} ('{}' / '{}')", what, a == b, ta == tb, ta, tb)).with("fen_a", ta).with("fen_b", tb));
    }
    Ok(())
}

/// (5) canonical record -> parse -> format reproduces the record
pub fn check_record(record: &str, shredder: bool) -> Result<bool, Failure> {
    let parsed = if shredder { Board::from_fen(record, true) } else { Board::from_fen(record, false) };
    let Ok(b) = parsed else { return Ok(false) };
    let back = if shredder { format!("{:#}", b) } else { format!("{}", b) };
    if back != record {
        return Err(Failure::new("C07:record-not-reproduced", format!("canonical {} record '{}' parses, but formats back as '{}'", if shredder { "Shredder" } else { "FEN" }, record, back)).with("record", record.to_string()).with("shredder", shredder.to_string()));
    }
    if let Ok(b2) = record.parse::<Board>() {
        if b2 != b {
            return Err(Failure::new("C07:fromstr-differs-from-explicit-mode", format!("'{}': FromStr and from_fen give different boards", record)).with("record", record.to_string()).with("shredder", shredder.to_string()));
        }
    } else {
        return Err(Failure::new("C07:fromstr-rejects-canonical-record", format!("'{}' is accepted by from_fen but rejected by FromStr", record)).with("record", record.to_string()).with("shredder", shredder.to_string()));
    }
    Ok(true)
}

pub fn run(ctx: &Ctx) -> Report {
    let mut rep = Report::new(ctx);
    rep.rule = "Every position along generated histories (DFRC, seed FENs, constructed boards with inner-file rights, EP files, clocks at caps): {:#} text parses back via from_fen(true) and FromStr to an equal board (==, hash, checkers, pins, clocks); {} text likewise when all rights are on a/h; both texts equal the reference formatter applied to the accessor view character for character; consecutive boards of the walk, clock-modified copies, rebuilt copies and null-move results are compared as pairs: (a == b) == (text(a) == text(b)). Boards built from edited (near-invalid) builder states, when accepted, go through the same round-trip and canonical-text checks. Families of boards built from one constructed state that differ only in the clocks (a lattice around 0/100 and f/f+1 and the caps) or only in the castling rights (every assignment of rights to the back-rank rooks on the proper wing) are compared pairwise: equal exactly when the states are. Independently, canonical records written by the REFERENCE formatter for constructed states are parsed and formatted: the record must be reproduced exactly. In the thorough tier, pairs of different boards with EQUAL hashes are constructed by a generalised-birthday search over the extracted Zobrist keys (pairs differing only in piece kinds, and pairs differing only in piece colours) and go through the same pair check. Non-trivial = board with a right on an inner file, an EP file, or a clock at its cap, or a constructed collision pair; distinct by text hash.".into();
    rep.assumptions = vec!["reference to_fen() defines the canonical record (order: white short, white long, black short, black long; EP square on the passed rank; decimal clocks)".into()];
    rep.required_classes = vec!["inner-file-right", "ep-file-set", "clock-at-cap", "plain-expressible", "pair-equal", "pair-different", "record-accepted-shredder", "record-accepted-plain", "accepted-edited-state", "placement-text-of-maximal-length-71", "family-pair-clocks-differ", "family-pair-rights-differ", "record-of-maximal-length-91"];
    rep.add(run_prop(
        ctx,
        "walk",
        ctx.tier.scale(100_000, 25),
        || arb_case(3, 3, 6, 40),
        |case: &PosCase, st: &mut Stats| {
            let Some((board, origin)) = start_board(&case.start) else {
                st.count("rejected-by-library", 1);
                return Ok(());
            };
            let mut prev: Option<Board> = None;
            walk(board, &case.ops, |b, p, step, hist| {
                if !well_formed(b, p) {
                    return Ok(());
                }
                st.eval(1);
                let inner = p.rights.iter().flatten().any(|r| matches!(r, Some(f) if *f != 0 && *f != 7)) || !p.plain_fen_expressible();
                let cap = p.hm >= 100 || p.fm >= 65535;
                st.class_if(inner, "inner-file-right");
                st.class_if(p.ep.is_some(), "ep-file-set");
                st.class_if(cap, "clock-at-cap");
                st.class_if(p.plain_fen_expressible(), "plain-expressible");
                {
                    let n = p.placement_text().len();
                    st.class_if(n == 71, "placement-text-of-maximal-length-71");
                    st.class_if((67..71).contains(&n), "placement-text-length-67-to-70");
                    st.class_if(p.to_fen(true).len() == 91, "record-of-maximal-length-91");
                }
                if inner || p.ep.is_some() || cap {
                    st.nontrivial(fnv(p.to_fen(true).as_bytes()));
                }
                st.sample(|| format!("{:#}", b));
                let v = Visit { board: b, pos: p, step, hist, origin: &origin };
                check_board(&v)?;
                // pairs
                let mut others: Vec<(Board, &str)> = Vec::new();
                if let Some(pb) = &prev {
                    others.push((pb.clone(), "previous board of the walk"));
                }
                let mut c = b.clone();
                c.set_halfmove_clock((b.halfmove_clock() + 1) % 101);
                others.push((c, "copy with another half-move clock"));
                let mut c = b.clone();
                c.set_fullmove_number(if b.fullmove_number() == 1 { 2 } else { b.fullmove_number() - 1 });
                others.push((c, "copy with another full-move number"));
                if let Ok(r) = BoardBuilder::from_board(b).build() {
                    others.push((r, "copy rebuilt through the builder"));
                }
                if let Some(n) = b.null_move() {
                    others.push((n, "null-move successor"));
                }
                for (o, what) in &others {
                    st.class(if o == b { "pair-equal" } else { "pair-different" });
                    check_pair(b, o, what).map_err(|f| f.with("start", origin.clone()).with("ops", hist.join(",")))?;
                }
                prev = Some(b.clone());
                Ok(())
            })
        },
    ));
    // boards built from edited (near-invalid) builder states: whatever the library accepts must round-trip
    rep.add(run_prop(ctx, "edited-states", ctx.tier.scale(200_000, 25), crate::gen2::arb_edited_state, |es: &crate::gen2::EditedState, st: &mut Stats| {
        let state = es.state();
        let Some(b) = build(&state) else {
            st.count("rejected-by-library", 1);
            return Ok(());
        };
        let p = pos_of_board(&b);
        if !well_formed(&b, &p) {
            return Ok(());
        }
        st.eval(1);
        st.class("accepted-edited-state");
        let origin = format!("bstate:{}", state.text());
        let v = Visit { board: &b, pos: &p, step: &Step::Start, hist: &[], origin: &origin };
        if p.ep.is_some() || !p.plain_fen_expressible() || p.hm >= 100 || p.fm >= 65535 {
            st.nontrivial(fnv(state.text().as_bytes()));
        }
        check_board(&v)
    }));
    rep.add(run_prop(ctx, "records", ctx.tier.scale(200_000, 25), || (arb_ingredients(), any::<bool>()), |(ing, shredder): &(Ingredients, bool), st: &mut Stats| {
        let state = assemble(ing);
        let Some(p) = state.to_pos() else { return Ok(()) };
        st.eval(1);
        let use_shredder = *shredder || !p.plain_fen_expressible();
        let record = p.to_fen(use_shredder);
        let accepted = check_record(&record, use_shredder)?;
        if accepted {
            st.class(if use_shredder { "record-accepted-shredder" } else { "record-accepted-plain" });
            st.class_if(record.len() == 91, "record-of-maximal-length-91");
            st.class_if((88..91).contains(&record.len()), "record-length-88-to-90");
            if p.ep.is_some() || !p.plain_fen_expressible() || p.hm >= 100 || p.fm >= 65535 {
                st.nontrivial(fnv(record.as_bytes()));
            }
            st.sample(|| record.clone());
        } else {
            st.count("record-rejected-by-library", 1);
        }
        Ok(())
    }));
    // families of boards that differ ONLY in clocks or ONLY in castling rights: every pair of a
    // family must compare unequal (and have different texts). Equality folding several fields
    // into one word shows here: (half-move 100, full-move f) vs (0, f+1); rights on neighbouring
    // files of one side traded against a right of the other side.
    rep.add(run_prop(ctx, "families", ctx.tier.scale(10_000, 25), || (arb_ingredients(), any::<u64>()), |(ing, sel): &(Ingredients, u64), st: &mut Stats| {
        let mut base = assemble(ing);
        if sel & 1 == 1 {
            // skeleton with many rooks: both kings on their back ranks behind full pawn rows,
            // rooks on a generated subset of the other back-rank squares
            let mut sk = RawState::empty();
            sk.stm = base.stm;
            sk.hm = base.hm;
            sk.fm = base.fm;
            let (wk, bk) = (((sel >> 1) % 8) as i32, ((sel >> 4) % 8) as i32);
            for f in 0..8i32 {
                sk.board[sq(f, 1) as usize] = Some((Kind::P, Side::W));
                sk.board[sq(f, 6) as usize] = Some((Kind::P, Side::B));
                if f != wk && (sel >> (8 + f)) & 1 == 1 {
                    sk.board[sq(f, 0) as usize] = Some((Kind::R, Side::W));
                }
                if f != bk && (sel >> (16 + f)) & 1 == 1 {
                    sk.board[sq(f, 7) as usize] = Some((Kind::R, Side::B));
                }
            }
            sk.board[sq(wk, 0) as usize] = Some((Kind::K, Side::W));
            sk.board[sq(bk, 7) as usize] = Some((Kind::K, Side::B));
            base = sk;
        }
        let mut family: Vec<(RawState, &str)> = Vec::new();
        let f0 = base.fm.clamp(1, 65533);
        let h0 = base.hm.min(99);
        for (hm, fm) in [(0u8, f0), (100, f0), (0, f0 + 1), (100, f0 + 1), (99, f0), (1, f0 + 1), (h0, f0), (h0 + 1, f0), (h0, f0 + 1), (h0 + 1, f0 + 1), ((sel % 101) as u8, f0), (h0, 1 + (sel >> 8) as u16 % 65535), (0, 1), (100, 1), (0, 65535), (100, 65535), (100, 65534)] {
            let mut v = base.clone();
            v.hm = hm;
            v.fm = fm;
            family.push((v, "clocks"));
        }
        let n_clock = family.len();
        // all assignments of rights to own back-rank rooks on the proper side of a back-rank king
        let mut slots: Vec<(usize, usize, Vec<Option<u8>>)> = Vec::new();
        for side in [Side::W, Side::B] {
            let br = side.back_rank();
            let Some(k) = base.king_sq(side) else { continue };
            if rank_of(k) != br {
                continue;
            }
            for wing in 0..2usize {
                let mut opts = vec![None];
                for f in 0..8i32 {
                    let on_wing = if wing == 0 { f > file_of(k) } else { f < file_of(k) };
                    if on_wing && base.board[sq(f, br) as usize] == Some((Kind::R, side)) {
                        opts.push(Some(f as u8));
                    }
                }
                slots.push((side.idx(), wing, opts));
            }
        }
        let total: usize = slots.iter().map(|s| s.2.len()).product();
        let stride = (total / 96).max(1);
        let mut idx = (*sel as usize >> 24) % stride;
        while idx < total {
            let mut v = base.clone();
            let mut rest = idx;
            for (side, wing, opts) in &slots {
                v.rights[*side][*wing] = opts[rest % opts.len()];
                rest /= opts.len();
            }
            family.push((v, "rights"));
            idx += stride;
        }
        let boards: Vec<Option<Board>> = family.iter().map(|(s, _)| build(s)).collect();
        for i in 0..family.len() {
            let Some(a) = &boards[i] else { continue };
            st.eval(1);
            let range = if i < n_clock { 0..n_clock } else { n_clock..family.len() };
            for j in range {
                if j <= i {
                    continue;
                }
                let Some(b) = &boards[j] else { continue };
                let same_state = family[i].0 == family[j].0;
                st.class(if same_state { "family-pair-same-state" } else if family[i].1 == "clocks" { "family-pair-clocks-differ" } else { "family-pair-rights-differ" });
                if family[i].1 == "rights" && !same_state && j == i + 1 {
                    st.nontrivial(fnv(format!("{}|{}", family[i].0.text(), family[j].0.text()).as_bytes()));
                }
                if (a == b) != same_state {
                    let (ta, tb) = (format!("{:#}", a), format!("{:#}", b));
                    return Err(Failure::new("C07:equality-vs-text", format!("boards built from states differing only in {}: equal = {}, states equal = {} ('{}' / '{}')", family[i].1, a == b, same_state, ta, tb)).with("fen_a", ta).with("fen_b", tb));
                }
                check_pair(a, b, "family pair")?;
            }
        }
        Ok(())
    }));
    // thorough tier: different boards with COLLIDING hashes must still compare unequal
    if ctx.tier == Tier::Thorough {
        let mut part = PartResult::empty();
        if let Ok(m) = super::c10::model() {
            let kind_pairs = crate::collide::kind_collision_pairs(m, 16);
            let colour_pairs = crate::collide::colour_collision_pairs(m, 16);
            part.stats.count("constructed:kind-collision-pairs", kind_pairs.len() as u64);
            part.stats.count("constructed:colour-swap-collision-pairs", colour_pairs.len() as u64);
            for (a, b) in kind_pairs.into_iter().chain(colour_pairs) {
                let (Some(ba), Some(bb)) = (build(&a), build(&b)) else { continue };
                part.stats.eval(1);
                part.stats.class_if(ba.hash() == bb.hash(), "constructed-hash-collision-pair");
                part.stats.nontrivial(fnv(format!("{}|{}", a.text(), b.text()).as_bytes()));
                if let Err(f) = check_pair(&ba, &bb, "constructed hash collision") {
                    part.failures.push(f);
                    break;
                }
            }
        }
        rep.add(part);
    }
    rep
}

pub fn replay(m: &ReplayMap) -> CaseResult {
    if let Some(r) = m.get("record") {
        return check_record(r, m.get("shredder").map(|s| s == "true").unwrap_or(true)).map(|_| ());
    }
    if let (Some(a), Some(b)) = (m.get("fen_a"), m.get("fen_b")) {
        if let (Some(a), Some(b)) = (board_from_text(a), board_from_text(b)) {
            return check_pair(&a, &b, "replayed pair");
        }
    }
    replay_positions(m, |v| check_board(v))
}
