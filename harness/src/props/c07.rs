//! C07 - FEN and Shredder-FEN text round-trips boards exactly and canonically.
use super::*;
use cozy_chess::*;
use proptest::prelude::*;

fn same(a: &Board, b: &Board) -> bool {
    a == b && a.hash() == b.hash() && a.checkers() == b.checkers() && a.pinned() == b.pinned() && a.halfmove_clock() == b.halfmove_clock() && a.fullmove_number() == b.fullmove_number() && a.en_passant() == b.en_passant()
}

pub fn check_board(v: &Visit) -> CaseResult {
    let shredder = format!("{:#}", v.board);
    let plain = format!("{}", v.board);
    // (3) canonical text
    if shredder != v.pos.to_fen(true) {
        return Err(v.fail("C07:shredder-text-not-canonical", format!("{}: format!(\"{{:#}}\") = '{}', canonical record is '{}'", v.describe(), shredder, v.pos.to_fen(true))));
    }
    if plain != v.pos.to_fen(false) {
        return Err(v.fail("C07:plain-text-not-canonical", format!("{}: format!(\"{{}}\") = '{}', canonical record is '{}'", v.describe(), plain, v.pos.to_fen(false))));
    }
    // (1) Shredder round trip
    for (mode, r) in [("from_fen(.., true)", Board::from_fen(&shredder, true)), ("FromStr", shredder.parse::<Board>())] {
        match r {
            Ok(b) if same(&b, v.board) => {}
            Ok(b) => return Err(v.fail("C07:shredder-roundtrip-differs", format!("{}: {} of '{}' gives a different board ('{:#}', hash {} vs {})", v.describe(), mode, shredder, b, b.hash(), v.board.hash()))),
            Err(e) => return Err(v.fail("C07:shredder-roundtrip-rejected", format!("{}: {} rejects the board's own text '{}': {:?}", v.describe(), mode, shredder, e))),
        }
    }
    // (2) plain FEN when every right is on the a/h file
    if v.pos.plain_fen_expressible() {
        for (mode, r) in [("from_fen(.., false)", Board::from_fen(&plain, false)), ("FromStr", plain.parse::<Board>())] {
            match r {
                Ok(b) if same(&b, v.board) => {}
                Ok(_) => return Err(v.fail("C07:plain-roundtrip-differs", format!("{}: {} of '{}' gives a different board", v.describe(), mode, plain))),
                Err(e) => return Err(v.fail("C07:plain-roundtrip-rejected", format!("{}: {} rejects the board's own text '{}': {:?}", v.describe(), mode, plain, e))),
            }
        }
    }
    Ok(())
}

pub fn check_pair(a: &Board, b: &Board, what: &str) -> CaseResult {
    let (ta, tb) = (format!("{:#}", a), format!("{:#}", b));
    if (a == b) != (ta == tb) {
        return Err(Failure::new("C07:equality-vs-text", format!("{}: boards equal = {}, Shredder texts equal = {} ('{}' / '{}')", what, a == b, ta == tb, ta, tb)).with("fen_a", ta).with("fen_b", tb));
    }
    Ok(())
}

/// (5) canonical record -> parse -> format reproduces the record
pub fn check_record(record: &str, shredder: bool) -> Result<bool, Failure> {
    let parsed = if shredder { Board::from_fen(record, true) } else { Board::from_fen(record, false) };
    let Ok(b) = parsed else { return Ok(false) };
    let back = if shredder { format!("{:#}", b) } else { format!("{}", b) };
    if back != record {
        return Err(Failure::new("C07:record-not-reproduced", format!("canonical {} record '{}' parses, but formats back as '{}'", if shredder { "Shredder" } else { "FEN" }, record, back)).with("record", record.to_string()).with("shredder", shredder.to_string()));
    }
    if let Ok(b2) = record.parse::<Board>() {
        if b2 != b {
            return Err(Failure::new("C07:fromstr-differs-from-explicit-mode", format!("'{}': FromStr and from_fen give different boards", record)).with("record", record.to_string()).with("shredder", shredder.to_string()));
        }
    } else {
        return Err(Failure::new("C07:fromstr-rejects-canonical-record", format!("'{}' is accepted by from_fen but rejected by FromStr", record)).with("record", record.to_string()).with("shredder", shredder.to_string()));
    }
    Ok(true)
}

pub fn run(ctx: &Ctx) -> Report {
    let mut rep = Report::new(ctx);
    rep.rule = "Every position along generated histories (DFRC, seed FENs, constructed boards with inner-file rights, EP files, clocks at caps): {:#} text parses back via from_fen(true) and FromStr to an equal board (==, hash, checkers, pins, clocks); {} text likewise when all rights are on a/h; both texts equal the reference formatter applied to the accessor view character for character; consecutive boards of the walk, clock-modified copies, rebuilt copies and null-move results are compared as pairs: (a == b) == (text(a) == text(b)). Boards built from edited (near-invalid) builder states, when accepted, go through the same round-trip and canonical-text checks. Independently, canonical records written by the REFERENCE formatter for constructed states are parsed and formatted: the record must be reproduced exactly. In the thorough tier, pairs of different boards with EQUAL hashes are constructed by a generalised-birthday search over the extracted Zobrist keys (pairs differing only in piece kinds, and pairs differing only in piece colours) and go through the same pair check. Non-trivial = board with a right on an inner file, an EP file, or a clock at its cap, or a constructed collision pair; distinct by text hash.".into();
    rep.assumptions = vec!["reference to_fen() defines the canonical record (order: white short, white long, black short, black long; EP square on the passed rank; decimal clocks)".into()];
    rep.required_classes = vec!["inner-file-right", "ep-file-set", "clock-at-cap", "plain-expressible", "pair-equal", "pair-different", "record-accepted-shredder", "record-accepted-plain", "accepted-edited-state"];
    rep.add(run_prop(
        ctx,
        "walk",
        ctx.tier.scale(100_000, 25),
        || arb_case(3, 3, 6, 40),
        |case: &PosCase, st: &mut Stats| {
            let Some((board, origin)) = start_board(&case.start) else {
                st.count("rejected-by-library", 1);
                return Ok(());
            };
            let mut prev: Option<Board> = None;
            walk(board, &case.ops, |b, p, step, hist| {
                if !well_formed(b, p) {
                    return Ok(());
                }
                st.eval(1);
                let inner = p.rights.iter().flatten().any(|r| matches!(r, Some(f) if *f != 0 && *f != 7)) || !p.plain_fen_expressible();
                let cap = p.hm >= 100 || p.fm >= 65535;
                st.class_if(inner, "inner-file-right");
                st.class_if(p.ep.is_some(), "ep-file-set");
                st.class_if(cap, "clock-at-cap");
                st.class_if(p.plain_fen_expressible(), "plain-expressible");
                if inner || p.ep.is_some() || cap {
                    st.nontrivial(fnv(p.to_fen(true).as_bytes()));
                }
                st.sample(|| format!("{:#}", b));
                let v = Visit { board: b, pos: p, step, hist, origin: &origin };
                check_board(&v)?;
                // pairs
                let mut others: Vec<(Board, &str)> = Vec::new();
                if let Some(pb) = &prev {
                    others.push((pb.clone(), "previous board of the walk"));
                }
                let mut c = b.clone();
                c.set_halfmove_clock((b.halfmove_clock() + 1) % 101);
                others.push((c, "copy with another half-move clock"));
                let mut c = b.clone();
                c.set_fullmove_number(if b.fullmove_number() == 1 { 2 } else { b.fullmove_number() - 1 });
                others.push((c, "copy with another full-move number"));
                if let Ok(r) = BoardBuilder::from_board(b).build() {
                    others.push((r, "copy rebuilt through the builder"));
                }
                if let Some(n) = b.null_move() {
                    others.push((n, "null-move successor"));
                }
                for (o, what) in &others {
                    st.class(if o == b { "pair-equal" } else { "pair-different" });
                    check_pair(b, o, what).map_err(|f| f.with("start", origin.clone()).with("ops", hist.join(",")))?;
                }
                prev = Some(b.clone());
                Ok(())
            })
        },
    ));
    // boards built from edited (near-invalid) builder states: whatever the library accepts must round-trip
    rep.add(run_prop(ctx, "edited-states", ctx.tier.scale(200_000, 25), crate::gen2::arb_edited_state, |es: &crate::gen2::EditedState, st: &mut Stats| {
        let state = es.state();
        let Some(b) = build(&state) else {
            st.count("rejected-by-library", 1);
            return Ok(());
        };
        let p = pos_of_board(&b);
        if !well_formed(&b, &p) {
            return Ok(());
        }
        st.eval(1);
        st.class("accepted-edited-state");
        let origin = format!("bstate:{}", state.text());
        let v = Visit { board: &b, pos: &p, step: &Step::Start, hist: &[], origin: &origin };
        if p.ep.is_some() || !p.plain_fen_expressible() || p.hm >= 100 || p.fm >= 65535 {
            st.nontrivial(fnv(state.text().as_bytes()));
        }
        check_board(&v)
    }));
    rep.add(run_prop(ctx, "records", ctx.tier.scale(200_000, 25), || (arb_ingredients(), any::<bool>()), |(ing, shredder): &(Ingredients, bool), st: &mut Stats| {
        let state = assemble(ing);
        let Some(p) = state.to_pos() else { return Ok(()) };
        st.eval(1);
        let use_shredder = *shredder || !p.plain_fen_expressible();
        let record = p.to_fen(use_shredder);
        let accepted = check_record(&record, use_shredder)?;
        if accepted {
            st.class(if use_shredder { "record-accepted-shredder" } else { "record-accepted-plain" });
            if p.ep.is_some() || !p.plain_fen_expressible() || p.hm >= 100 || p.fm >= 65535 {
                st.nontrivial(fnv(record.as_bytes()));
            }
            st.sample(|| record.clone());
        } else {
            st.count("record-rejected-by-library", 1);
        }
        Ok(())
    }));
    // thorough tier: different boards with COLLIDING hashes must still compare unequal
    if ctx.tier == Tier::Thorough {
        let mut part = PartResult::empty();
        if let Ok(m) = super::c10::model() {
            let kind_pairs = crate::collide::kind_collision_pairs(m, 16);
            let colour_pairs = crate::collide::colour_collision_pairs(m, 16);
            part.stats.count("constructed:kind-collision-pairs", kind_pairs.len() as u64);
            part.stats.count("constructed:colour-swap-collision-pairs", colour_pairs.len() as u64);
            for (a, b) in kind_pairs.into_iter().chain(colour_pairs) {
                let (Some(ba), Some(bb)) = (build(&a), build(&b)) else { continue };
                part.stats.eval(1);
                part.stats.class_if(ba.hash() == bb.hash(), "constructed-hash-collision-pair");
                part.stats.nontrivial(fnv(format!("{}|{}", a.text(), b.text()).as_bytes()));
                if let Err(f) = check_pair(&ba, &bb, "constructed hash collision") {
                    part.failures.push(f);
                    break;
                }
            }
        }
        rep.add(part);
    }
    rep
}

pub fn replay(m: &ReplayMap) -> CaseResult {
    if let Some(r) = m.get("record") {
        return check_record(r, m.get("shredder").map(|s| s == "true").unwrap_or(true)).map(|_| ());
    }
    if let (Some(a), Some(b)) = (m.get("fen_a"), m.get("fen_b")) {
        if let (Some(a), Some(b)) = (board_from_text(a), board_from_text(b)) {
            return check_pair(&a, &b, "replayed pair");
        }
    }
    replay_positions(m, |v| check_board(v))
}
