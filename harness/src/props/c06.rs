//! C06 - only structurally sound positions become boards; reachable ones always do.
use super::*;
use crate::gen2::*;
use cozy_chess::*;
use std::panic::{catch_unwind, AssertUnwindSafe};

/// Soundness of one board the library handed out.
pub fn check_sound(board: &Board, how: &str, replay: &[(&str, String)]) -> CaseResult {
    let mk = |sig: &str, msg: String| {
        let mut f = Failure::new(sig, msg);
        for (k, v) in replay {
            f = f.with(k, v.clone());
        }
        f
    };
    if !accessors_consistent(board) {
        return Err(mk("C06:accessors-inconsistent", format!("{}: piece/colour bitboards of the returned board overlap or disagree", how)));
    }
    let pos = pos_of_board(board);
    if let Some(d) = pos.structural_defect() {
        return Err(mk(&format!("C06:unsound:{}", d), format!("{}: the library handed out a board that is not structurally sound ({}): {}", how, d, pos.to_fen(true))));
    }
    Ok(())
}

pub fn check_builder_state(st: &RawState) -> CaseResult {
    let text = st.text();
    match catch_unwind(AssertUnwindSafe(|| st.builder().build())) {
        Err(p) => Err(Failure::new("C06:build-panics", format!("BoardBuilder::build panicked on {}: {}", text, panic_text(p))).with("bstate", text)),
        Ok(Err(_)) => Ok(()),
        Ok(Ok(board)) => {
            check_sound(&board, &format!("builder state '{}'", text), &[("bstate", text.clone())])?;
            // and it is the position that was put in
            let got = pos_of_board(&board);
            if Some(&got) != st.to_pos().as_ref() {
                return Err(Failure::new("C06:built-board-differs-from-state", format!("builder state '{}' built a board showing '{}'", text, got.to_fen(true))).with("bstate", text));
            }
            Ok(())
        }
    }
}

pub fn check_text(s: &str) -> CaseResult {
    for (mode, r) in [
        ("from_fen(.., false)", catch_unwind(AssertUnwindSafe(|| Board::from_fen(s, false)))),
        ("from_fen(.., true)", catch_unwind(AssertUnwindSafe(|| Board::from_fen(s, true)))),
        ("FromStr", catch_unwind(AssertUnwindSafe(|| s.parse::<Board>()))),
    ] {
        if let Ok(Ok(board)) = r {
            check_sound(&board, &format!("{} of {:?}", mode, s), &[("text_hex", hex_encode(s.as_bytes()))])?;
        }
    }
    Ok(())
}

/// Acceptance of a position reached by legal play.
pub fn check_accepted(v: &Visit) -> CaseResult {
    let text = format!("{:#}", v.board);
    for (mode, r) in [("from_fen(.., true)", Board::from_fen(&text, true)), ("FromStr", text.parse::<Board>())] {
        match r {
            Err(e) => return Err(v.fail("C06:reached-position-rejected-as-text", format!("{}: {} rejects the Shredder-FEN '{}' of a position reached by legal play: {:?}", v.describe(), mode, text, e))),
            Ok(b) => {
                if &b != v.board {
                    return Err(v.fail("C06:reentered-text-differs", format!("{}: {} of '{}' gives a different board", v.describe(), mode, text)));
                }
            }
        }
    }
    match BoardBuilder::from_board(v.board).build() {
        Err(e) => Err(v.fail("C06:reached-position-rejected-by-builder", format!("{}: the builder rejects a position reached by legal play: {:?}", v.describe(), e))),
        Ok(b) => {
            if &b != v.board {
                return Err(v.fail("C06:rebuilt-differs", format!("{}: rebuilding through the builder gives a different board", v.describe())));
            }
            Ok(())
        }
    }
}

pub fn run(ctx: &Ctx) -> Report {
    let mut rep = Report::new(ctx);
    rep.rule = "Soundness: (a) builder states = constructed valid-looking states with 0..3 edits (overwrite a square with any piece incl. kings and back-rank pawns, remove a piece, kings adjacent, set/clear a right on any file, any EP square, any clocks, flip the turn, ninth pawn, seventeenth man, check against the side not to move, extra checkers, relocated king); (b) FEN strings = canonical records of such states / seed FENs / repo invalid.sfens lines with 0..3 text mutations, through from_fen(false), from_fen(true) and FromStr; (c) start constructors and every board produced by play/null_move along histories, plus the successor of EVERY move the library's own generator offers at each visited board; (d) the clock setters with every u8 / boundary u16 argument under catch_unwind, in the checked and the unchecked build (out-of-range arguments must be refused, so no board with a clock out of range can be handed out). Every board handed out must pass the reference structural check (one king each, kings not adjacent, <=16 men, <=8 pawns, no pawn on rank 1/8, side not to move not attacked, rights backed by king on back rank + own rook on the named file on the correct side, EP backed by a just-double-pushed enemy pawn, clocks in range) and, for the builder, show exactly the state put in. Acceptance: every position along move-only histories from DFRC starts re-enters via from_fen(true), FromStr and the builder, giving an equal board. Non-trivial = an ACCEPTED board that came from an edited state or mutated string, or a reached position with EP set / in check / after castling; distinct by hash.".into();
    rep.assumptions = vec!["reference structural_defect() is the wording of C06".into()];
    rep.required_classes = vec![
        "state:king-count", "state:kings-adjacent", "state:more-than-16-men", "state:more-than-8-pawns", "state:pawn-on-back-rank", "state:side-not-to-move-in-check",
        "state:right-king-off-back-rank", "state:right-without-rook", "state:right-wrong-side-of-king", "state:ep-wrong-rank", "state:ep-without-pawn",
        "state:ep-passed-square-occupied", "state:ep-origin-occupied", "state:halfmove-clock-out-of-range", "state:fullmove-number-zero", "state:sound",
        "edited-state-accepted", "mutated-text-accepted", "reached:ep-set", "reached:in-check", "reached:after-castling", "reached-any-origin:ep-set-in-check",
    ];
    // (a) builder
    rep.add(run_prop(ctx, "builder", ctx.tier.scale(300_000, 25), arb_edited_state, |es: &EditedState, st: &mut Stats| {
        let state = es.state();
        st.eval(1);
        let defects = defective_aspects(&state);
        if defects.is_empty() {
            st.class("state:sound");
        }
        for (_, d) in &defects {
            st.class(&format!("state:{}", d));
        }
        let accepted = state.builder().build().is_ok();
        if accepted && !es.edits.is_empty() {
            st.class("edited-state-accepted");
            st.nontrivial(fnv(state.text().as_bytes()));
        }
        st.class_if(!accepted && defects.is_empty(), "sound-state-rejected-by-library");
        st.sample(|| format!("bstate '{}' ({} edits) -> {}", state.text(), es.edits.len(), if accepted { "accepted" } else { "rejected" }));
        check_builder_state(&state)
    }));
    // (b) parser
    rep.add(run_prop(ctx, "parser", ctx.tier.scale(300_000, 25), arb_fen_case, |fc: &FenCase, st: &mut Stats| {
        let s = fc.text();
        st.eval(1);
        let accepted = Board::from_fen(&s, false).is_ok() || Board::from_fen(&s, true).is_ok();
        if accepted && !fc.muts.is_empty() {
            st.class("mutated-text-accepted");
            st.nontrivial(fnv(s.as_bytes()));
        }
        st.class_if(accepted && fc.muts.is_empty(), "canonical-text-accepted");
        st.sample(|| format!("{:?} -> {}", s, if accepted { "accepted" } else { "rejected" }));
        check_text(&s)
    }));
    // (c) start constructors, play, null move + acceptance
    rep.add(positions(ctx, "reached", ctx.tier.scale(60_000, 25), (6, 2, 2), 80, |v, st| {
        st.eval(1);
        check_sound(v.board, &format!("board reached at {}", v.describe()), &[("start", v.origin.to_string()), ("ops", v.hist.join(","))])?;
        // Every board play() hands out for a move the LIBRARY itself offers must be sound too
        // (the walk only plays reference-legal moves; a generator that offers an illegal move
        // would otherwise never get it played here).
        for m in lib_moves(v.board) {
            let mut nb = v.board.clone();
            if catch_unwind(AssertUnwindSafe(|| nb.play_unchecked(lmove(m)))).is_ok() {
                st.count("successors-of-library-moves", 1);
                check_sound(&nb, &format!("board after the library's own move {} at {}", m.text(), v.describe()), &[("start", v.origin.to_string()), ("ops", v.hist.join(",")), ("libmove", m.text())])?;
            }
        }
        // Every board reached from an accepted board must itself be re-enterable (C03/C07 state
        // this for all accepted boards; here it is also the acceptance half for start positions).
        if !v.hist.is_empty() && *v.step != Step::Clock {
            st.class("reached-any-origin");
            if v.pos.ep.is_some() && v.pos.in_check(v.pos.stm) {
                st.class("reached-any-origin:ep-set-in-check");
            }
            check_accepted(v)?;
        }
        let only_moves = v.hist.iter().all(|h| RMove::parse(h).is_some());
        if only_moves && (v.origin.contains("/pppppppp/8/8/8/8/PPPPPPPP/") || v.origin.starts_with("dfrc")) {
            st.class("reached-from-start-position");
            let in_check = v.pos.in_check(v.pos.stm);
            st.class_if(v.pos.ep.is_some(), "reached:ep-set");
            ep_check_classes(v.pos, st);
            st.class_if(in_check, "reached:in-check");
            let castled = matches!(v.step, Step::Move(m) if {
                // the king moved more than one file or onto the c/g file from a non-adjacent file: detect via history text
                let _ = m;
                false
            });
            let _ = castled;
            if let Step::Move(m) = v.step {
                // castling shows as a king standing on c/g with its rook on d/f right after a move whose origin held that king
                let us = v.pos.stm.other();
                let br = us.back_rank();
                if rank_of(m.from) == br && rank_of(m.to) == br && v.pos.board[m.from as usize].map(|(k, _)| k) != Some(Kind::K) {
                    let kd = v.pos.king_sq(us).unwrap();
                    if (file_of(kd) == 6 && v.pos.at(5, br) == Some((Kind::R, us)) && file_of(m.to) > file_of(m.from) && (file_of(m.to) - file_of(m.from) > 1 || file_of(m.to) != 6))
                        || (file_of(kd) == 2 && v.pos.at(3, br) == Some((Kind::R, us)) && file_of(m.to) < file_of(m.from))
                    {
                        st.class("reached:after-castling");
                    }
                }
            }
            if v.pos.ep.is_some() || in_check {
                st.nontrivial(pos_hash(v.pos));
            }
            st.sample(|| v.describe());
            check_accepted(v)?;
        }
        Ok(())
    }));
    // clock setters: an out-of-range argument must be refused (panic) in every build profile;
    // an in-range one must leave a sound board
    let mut setters = PartResult::empty();
    {
        let base = Board::default();
        for n in 0..=255u8 {
            setters.stats.eval(1);
            let mut b = base.clone();
            let r = catch_unwind(AssertUnwindSafe(|| b.set_halfmove_clock(n)));
            let sound = check_sound(&b, &format!("set_halfmove_clock({}) [build {}]", n, build_name()), &[("setter", format!("halfmove:{}", n))]);
            if (n <= 100) != r.is_ok() {
                setters.failures.push(Failure::new("C06:setter-range", format!("set_halfmove_clock({}) {} [build {}]", n, if r.is_ok() { "was accepted" } else { "panicked" }, build_name())).with("setter", format!("halfmove:{}", n)));
                break;
            }
            if let Err(f) = sound {
                setters.failures.push(f);
                break;
            }
        }
        for n in [0u16, 1, 2, 100, 65534, 65535] {
            setters.stats.eval(1);
            let mut b = base.clone();
            let r = catch_unwind(AssertUnwindSafe(|| b.set_fullmove_number(n)));
            let sound = check_sound(&b, &format!("set_fullmove_number({}) [build {}]", n, build_name()), &[("setter", format!("fullmove:{}", n))]);
            if (n >= 1) != r.is_ok() {
                setters.failures.push(Failure::new("C06:setter-range", format!("set_fullmove_number({}) {} [build {}]", n, if r.is_ok() { "was accepted" } else { "panicked" }, build_name())).with("setter", format!("fullmove:{}", n)));
                break;
            }
            if let Err(f) = sound {
                setters.failures.push(f);
                break;
            }
        }
        setters.stats.class("clock-setters");
    }
    rep.add(setters);
    // all 960 symmetric start constructors
    let mut starts = PartResult::empty();
    for n in 0..960u32 {
        starts.stats.eval(1);
        let b = Board::chess960_startpos(n);
        if let Err(f) = check_sound(&b, &format!("chess960_startpos({})", n), &[("start", format!("dfrc:{},{}", n, n))]) {
            starts.failures.push(f);
            break;
        }
    }
    // the other start-position constructors
    {
        starts.stats.eval(3);
        let (a, b, c) = (Board::startpos(), Board::default(), Board::chess960_startpos(518));
        if a != b || a != c || format!("{}", a) != "rnbqkbnr/pppppppp/8/8/8/8/PPPPPPPP/RNBQKBNR w KQkq - 0 1" {
            starts.failures.push(Failure::new("C06:startpos-constructors-disagree", "Board::startpos(), Board::default() and chess960_startpos(518) differ or are not the standard start position".into()));
        }
        if let Err(f) = check_sound(&a, "Board::startpos()", &[("start", "dfrc:518,518".to_string())]) {
            starts.failures.push(f);
        }
        let bb = BoardBuilder::from_board(&a);
        for color in [Color::White, Color::Black] {
            if bb.castle_rights(color) != a.castle_rights(color) || BoardBuilder::default() != bb || BoardBuilder::startpos() != bb {
                starts.failures.push(Failure::new("C06:builder-startpos", "BoardBuilder::default()/startpos()/from_board(startpos) or its castle_rights accessor disagree".into()));
            }
        }
    }
    rep.add(starts);
    rep
}

pub fn replay(m: &ReplayMap) -> CaseResult {
    if let Some(t) = m.get("setter") {
        let (which, n) = t.split_once(':').unwrap_or(("halfmove", "0"));
        let mut b = Board::default();
        let n: u32 = n.parse().unwrap_or(0);
        let r = if which == "halfmove" { catch_unwind(AssertUnwindSafe(|| b.set_halfmove_clock(n as u8))) } else { catch_unwind(AssertUnwindSafe(|| b.set_fullmove_number(n as u16))) };
        let in_range = if which == "halfmove" { n <= 100 } else { n >= 1 };
        if r.is_ok() != in_range {
            return Err(Failure::new("C06:setter-range", format!("clock setter {} misbehaves in build {}", t, build_name())));
        }
        return check_sound(&b, "board after clock setter", &[]);
    }
    if let Some(t) = m.get("bstate") {
        let st = RawState::parse(t).ok_or_else(|| Failure::new("bad-replay", "bad bstate".into()))?;
        return check_builder_state(&st);
    }
    if let Some(h) = m.get("text_hex") {
        let s = String::from_utf8(hex_decode(h).unwrap_or_default()).unwrap_or_default();
        return check_text(&s);
    }
    let libmove = m.get("libmove").and_then(|t| RMove::parse(t));
    replay_positions(m, |v| {
        check_sound(v.board, "replayed board", &[])?;
        if libmove.is_some() {
            for mv in lib_moves(v.board) {
                let mut nb = v.board.clone();
                if catch_unwind(AssertUnwindSafe(|| nb.play_unchecked(lmove(mv)))).is_ok() {
                    check_sound(&nb, "successor of a library move", &[])?;
                }
            }
        }
        let only_moves = v.hist.iter().all(|h| RMove::parse(h).is_some());
        if only_moves {
            check_accepted(v)?;
        }
        Ok(())
    })
}
