//! C12 - game status reflects checkmate, stalemate and the fifty-move rule.
use super::*;
use cozy_chess::*;
use proptest::prelude::*;

pub fn check_board(v: &Visit) -> CaseResult {
    let legal = v.pos.legal_moves();
    let in_check = v.pos.in_check(v.pos.stm);
    let want = if legal.is_empty() {
        if in_check {
            GameStatus::Won
        } else {
            GameStatus::Drawn
        }
    } else if v.pos.hm >= 100 {
        GameStatus::Drawn
    } else {
        GameStatus::Ongoing
    };
    let got = v.board.status();
    if got != want {
        return Err(v.fail("C12:status", format!("{}: status() = {:?}, rules give {:?} ({} legal moves, in check: {}, half-move clock {})", v.describe(), got, want, legal.len(), in_check, v.pos.hm)));
    }
    Ok(())
}

fn visit(v: &Visit, st: &mut Stats) -> CaseResult {
    st.eval(1);
    let legal = v.pos.legal_moves();
    let in_check = v.pos.in_check(v.pos.stm);
    let cls = match (legal.is_empty(), in_check, v.pos.hm) {
        (true, true, h) if h >= 100 => "checkmate-with-clock-100",
        (true, true, _) => "checkmate",
        (true, false, _) => "stalemate",
        (false, _, 100) => "fifty-move-draw",
        (false, true, 99) => "in-check-clock-99",
        (false, _, 99) => "clock-99-ongoing",
        (false, true, _) => "in-check-ongoing",
        _ => "ongoing",
    };
    st.class(cls);
    st.class_if(!legal.is_empty() && legal.iter().all(|m| v.pos.is_castle(*m)), "castling-is-the-only-legal-move");
    if v.pos.ep.is_some() {
        let pseudo_ep = v.pos.pseudo_moves().iter().any(|m| v.pos.is_ep_capture(*m));
        st.class_if(pseudo_ep && legal.is_empty() && !in_check, "stalemate-with-illegal-ep-capture");
        st.class_if(pseudo_ep && legal.len() == 1 && v.pos.is_ep_capture(legal[0]), "ep-capture-is-the-only-legal-move");
    }
    if cls != "ongoing" && cls != "in-check-ongoing" {
        st.nontrivial(pos_hash(v.pos) ^ v.pos.hm as u64);
    }
    st.sample(|| format!("{} -> {:?}", v.describe(), v.board.status()));
    check_board(v)?;
    // the position after passing the turn (when allowed) is judged too: status() must not depend
    // on anything remembered from before the pass
    if let Some(nb) = v.board.null_move() {
        let np = pos_of_board(&nb);
        if well_formed(&nb, &np) {
            st.eval(1);
            let mut h: Vec<String> = v.hist.to_vec();
            h.push("null".into());
            let nv = Visit { board: &nb, pos: &np, step: &Step::Null, hist: &h, origin: v.origin };
            let nl = np.legal_moves();
            st.class_if(nl.is_empty(), "after-null:no-legal-move");
            st.class_if(!nl.is_empty() && nl.iter().all(|m| np.pinned_mask_for(np.stm.other()) & (1u64 << m.from) != 0), "after-null:only-battery-front-pieces-move");
            st.class_if(!nl.is_empty() && nl.iter().all(|m| np.pinned_mask_for(np.stm.other()) & (1u64 << m.from) != 0 || matches!(np.board[m.from as usize], Some((Kind::K, _)))), "after-null:only-king-or-battery-pieces-move");
            check_board(&nv)?;
        }
    }
    Ok(())
}

pub fn run(ctx: &Ctx) -> Report {
    let mut rep = Report::new(ctx);
    rep.rule = "Every position along generated histories (extra weight on mate/stalemate-net motifs and on half-move clocks 98..100 via clock setters and constructed clocks); status() is compared with: no legal move & check -> Won; no legal move & no check -> Drawn; legal move & clock >= 100 -> Drawn; else Ongoing (legal moves and check from the reference model). The null-move successor of every visited board is judged as well (with motifs where, after the pass, the only movable enemy pieces are front pieces of a battery aimed at the passer's king). A second part CONSTRUCTS positions with exactly one legal move: from a generated position a target move is chosen (castling, en passant, two-square pawn push, promotion preferred) and every other legal move is spoiled step by step under the reference model (the moving piece removed, the destination occupied by a new own piece or covered by a new enemy piece) while the target stays legal; status() is judged there, classes only-move:<kind>[:in-check]. Non-trivial = status other than Ongoing, or clock >= 99, or a constructed only-move position; distinct by (FEN hash, clock).".into();
    rep.assumptions = vec!["reference legal_moves()/in_check()".into()];
    rep.required_classes = vec!["checkmate", "stalemate", "fifty-move-draw", "checkmate-with-clock-100", "clock-99-ongoing", "in-check-ongoing", "after-null:no-legal-move", "after-null:only-battery-front-pieces-move", "stalemate-with-illegal-ep-capture", "ep-capture-is-the-only-legal-move", "castling-is-the-only-legal-move", "only-move:double-push:in-check", "only-move:en-passant", "only-move:castle", "only-move:promotion"];
    let cases = ctx.tier.scale(200_000, 25);
    rep.add(positions(ctx, "walk", cases, (1, 3, 8), 40, visit));
    // constructed: a chosen move (rare kinds preferred) is the ONLY legal move
    rep.add(run_prop(ctx, "only-move", ctx.tier.scale(4_000, 25), || (arb_ingredients(), any::<u64>()), |(ing, sel): &(Ingredients, u64), st: &mut Stats| {
        let state = assemble(ing);
        let Some(p0) = state.to_pos() else { return Ok(()) };
        if build(&state).is_none() {
            return Ok(());
        }
        let Some((p, only)) = crate::onlymove::reduce_to_only_move(&p0, *sel) else {
            st.count("only-move-search-failed", 1);
            return Ok(());
        };
        let rs = RawState::from_pos(&p);
        let Some(b) = build(&rs) else {
            st.count("only-move-position-rejected-by-library", 1);
            return Ok(());
        };
        let pos = pos_of_board(&b);
        if !well_formed(&b, &pos) || pos.legal_moves().iter().any(|m| m.from != only.from || m.to != only.to) {
            return Ok(());
        }
        st.eval(1);
        let kind = move_class(&pos, only);
        st.class(&format!("only-move:{}{}", kind, if pos.in_check(pos.stm) { ":in-check" } else { "" }));
        st.nontrivial(pos_hash(&pos) ^ pos.hm as u64);
        st.sample(|| format!("{} (only move {}) -> {:?}", pos.to_fen(true), only.text(), b.status()));
        let origin = format!("bstate:{}", rs.text());
        let v = Visit { board: &b, pos: &pos, step: &Step::Start, hist: &[], origin: &origin };
        check_board(&v)
    }));
    rep
}

pub fn replay(m: &ReplayMap) -> CaseResult {
    let want = m.get("fen").cloned();
    replay_positions(m, |v| {
        if let Some(f) = &want {
            if &v.pos.to_fen(true) != f {
                return Ok(());
            }
        }
        check_board(v)
    })
}
