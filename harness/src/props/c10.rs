//! C10 - the position hash is a pure function of the position, kept in step incrementally.
use super::*;
use crate::keymodel::*;
use std::sync::OnceLock;

static MODEL: OnceLock<Result<KeyModel, String>> = OnceLock::new();

pub fn model() -> &'static Result<KeyModel, String> {
    MODEL.get_or_init(KeyModel::extract)
}

pub fn check_board(v: &Visit) -> CaseResult {
    let h = v.board.hash();
    // rebuilt through the builder with different clocks
    let mut st = RawState::from_pos(v.pos);
    st.hm = (st.hm + 37) % 101;
    st.fm = if st.fm > 1000 { 1 } else { st.fm + 777 };
    match build(&st) {
        None => return Err(v.fail("C10:rebuild-rejected", format!("{}: the builder rejects the same position with other clocks", v.describe()))),
        Some(b) => {
            if b.hash() != h {
                return Err(v.fail("C10:hash-differs-from-builder-route", format!("{}: hash {:#018x}, but the same position built through the builder (other clocks) hashes to {:#018x}", v.describe(), h, b.hash())));
            }
            if b.hash_without_ep() != v.board.hash_without_ep() {
                return Err(v.fail("C10:hash_without_ep-differs-from-builder-route", format!("{}: hash_without_ep differs between play route and builder route", v.describe())));
            }
        }
    }
    let text = format!("{:#}", v.board);
    match Board::from_fen(&text, true) {
        Ok(b) if b.hash() == h => {}
        Ok(b) => return Err(v.fail("C10:hash-differs-from-text-route", format!("{}: hash {:#018x}, parsed from its own Shredder text: {:#018x}", v.describe(), h, b.hash()))),
        Err(e) => return Err(v.fail("C10:text-route-rejected", format!("{}: parser rejects '{}': {:?}", v.describe(), text, e))),
    }
    if v.pos.plain_fen_expressible() {
        let plain = format!("{}", v.board);
        match Board::from_fen(&plain, false) {
            Ok(b) if b.hash() == h => {}
            Ok(b) => return Err(v.fail("C10:hash-differs-from-plain-text-route", format!("{}: hash {:#018x}, parsed from plain FEN: {:#018x}", v.describe(), h, b.hash()))),
            Err(e) => return Err(v.fail("C10:text-route-rejected", format!("{}: parser rejects '{}': {:?}", v.describe(), plain, e))),
        }
    }
    // hash without EP == hash of the same position with the EP file cleared
    let mut noep = RawState::from_pos(v.pos);
    noep.ep = None;
    match build(&noep) {
        None => return Err(v.fail("C10:ep-cleared-position-rejected", format!("{}: the builder rejects the position with the EP file cleared", v.describe()))),
        Some(b) => {
            if b.hash() != v.board.hash_without_ep() {
                return Err(v.fail("C10:hash_without_ep", format!("{}: hash_without_ep() = {:#018x}, the position with EP cleared hashes to {:#018x}", v.describe(), v.board.hash_without_ep(), b.hash())));
            }
            if v.pos.ep.is_none() && v.board.hash_without_ep() != h {
                return Err(v.fail("C10:hash_without_ep-no-ep", format!("{}: no EP file but hash_without_ep() != hash()", v.describe())));
            }
        }
    }
    // affine key model: depends on placement, side, rights and EP file only
    if let Ok(m) = model() {
        if let Some(pred) = m.predict(v.pos) {
            if pred != h {
                return Err(v.fail("C10:hash-not-xor-of-feature-keys", format!("{}: hash {:#018x}, XOR of the per-feature keys extracted from sparse boards = {:#018x}", v.describe(), h, pred)));
            }
        }
    }
    Ok(())
}

pub fn run(ctx: &Ctx) -> Report {
    let mut rep = Report::new(ctx);
    rep.rule = "Every position along generated histories (moves with bias to castles incl. king/rook not moving, EP captures, promotions, captures on right squares, double pushes; null moves; clock setters) from DFRC starts, seed FENs and constructed boards: hash() must equal the hash of the same position (a) built through the builder with different clocks, (b) parsed from its Shredder text, (c) parsed from plain FEN when expressible; hash_without_ep() must equal the hash of the builder-made position with the EP file cleared; and hash() must equal the XOR of per-feature keys extracted once from sparse boards (piece keys, king pseudo-keys, castle keys, EP keys, side key). Plus four-ply transposition pairs, and the same route-independence checks on every board the parser returns for mutated / non-canonical text (e.g. rights written in another order). Non-trivial = last op was a castle, EP capture, promotion, capture on a right's square, double push, or null move; distinct by (FEN, op) hash.".into();
    rep.assumptions = vec!["reference view of the board via accessors".into(), "key extraction boards are accepted by the library (reported in evidence if not)".into()];
    rep.required_classes = vec!["after:castle", "after:en-passant", "after:promotion", "after:capture-on-right-square", "after:double-push", "after:null", "after:double-push-replacing-ep", "castle-king-or-rook-stays", "parsed-noncanonical-text"];
    match model() {
        Err(e) => {
            let mut p = PartResult::empty();
            p.failures.push(Failure::new("infrastructure", format!("key model extraction failed: {}", e)));
            rep.add(p);
            return rep;
        }
        Ok(m) => {
            rep.extra.insert("key_model_notes".into(), serde_json::json!(m.notes));
            rep.extra.insert("plain_keys_extracted".into(), serde_json::json!(m.plain_keys().len()));
        }
    }
    rep.add(run_prop(
        ctx,
        "walk",
        ctx.tier.scale(60_000, 25),
        || arb_case(2, 3, 5, 60),
        |case: &PosCase, st: &mut Stats| {
            let Some((board, origin)) = start_board(&case.start) else {
                st.count("rejected-by-library", 1);
                return Ok(());
            };
            let mut prev: Option<Pos> = None;
            walk(board, &case.ops, |b, p, step, hist| {
                if !well_formed(b, p) {
                    return Ok(());
                }
                st.eval(1);
                let mut nt = false;
                match (step, &prev) {
                    (Step::Null, _) => {
                        st.class("after:null");
                        nt = true;
                    }
                    (Step::Move(m), Some(pp)) => {
                        let cls = move_class(pp, *m);
                        match cls {
                            "castle" => {
                                st.class("after:castle");
                                let (k, r) = (file_of(m.from), file_of(m.to));
                                st.class_if(k == if r > k { 6 } else { 2 } || r == if r > k { 5 } else { 3 }, "castle-king-or-rook-stays");
                                nt = true;
                            }
                            "en-passant" => {
                                st.class("after:en-passant");
                                nt = true;
                            }
                            "promotion" | "promotion-capture" => {
                                st.class("after:promotion");
                                nt = true;
                            }
                            "double-push" => {
                                st.class("after:double-push");
                                st.class_if(pp.ep.is_some(), "after:double-push-replacing-ep");
                                nt = true;
                            }
                            _ => {}
                        }
                        if cls == "capture" || cls == "promotion-capture" {
                            let them = pp.stm.other();
                            if rank_of(m.to) == them.back_rank() && pp.rights[them.idx()].contains(&Some(file_of(m.to) as u8)) {
                                st.class("after:capture-on-right-square");
                                nt = true;
                            }
                        }
                    }
                    _ => {}
                }
                if nt {
                    st.nontrivial(fnv(format!("{}|{}", p.to_fen(true), step.text()).as_bytes()));
                }
                st.sample(|| format!("{:#} hash {:#018x} after {}", b, b.hash(), step.text()));
                prev = Some(p.clone());
                check_board(&Visit { board: b, pos: p, step, hist, origin: &origin })
            })
        },
    ));
    rep.add(super::c03::transpositions(ctx, ctx.tier.scale(60_000, 25), "C10"));
    // boards that came out of the parser for mutated / non-canonical text: same fields => same hash
    rep.add(run_prop(ctx, "parsed-text", ctx.tier.scale(200_000, 25), crate::gen2::arb_fen_case, |fc: &crate::gen2::FenCase, st: &mut Stats| {
        let text = fc.text();
        for (mode, r) in [(0, cozy_chess::Board::from_fen(&text, false)), (1, cozy_chess::Board::from_fen(&text, true)), (2, text.parse::<cozy_chess::Board>())] {
            let Ok(b) = r else { continue };
            let p = pos_of_board(&b);
            if !well_formed(&b, &p) {
                continue;
            }
            st.eval(1);
            st.class(if fc.muts.is_empty() { "parsed-canonical-text" } else { "parsed-mutated-text" });
            let noncanonical = p.to_fen(mode != 0) != text && p.to_fen(mode == 0) != text;
            st.class_if(noncanonical, "parsed-noncanonical-text");
            if noncanonical {
                st.nontrivial(fnv(text.as_bytes()));
            }
            let origin = format!("text:{}", text);
            let v = Visit { board: &b, pos: &p, step: &Step::Start, hist: &[], origin: &origin };
            check_board(&v).map_err(|f| f.with("text_hex", hex_encode(text.as_bytes())))?;
        }
        Ok(())
    }));
    // thorough tier: boards whose hash is a SPECIAL value (0, 1, all ones), constructed with a
    // 4-list birthday search over the extracted keys: no sentinel may leak into hash()
    if ctx.tier == Tier::Thorough {
        let mut part = PartResult::empty();
        if let Ok(m) = model() {
            for target in [0u64, 1, !0u64] {
                for st in crate::collide::boards_with_hash(m, target, 3) {
                    let Some(b) = build(&st) else { continue };
                    let p = pos_of_board(&b);
                    part.stats.eval(1);
                    part.stats.class_if(m.predict(&p) == Some(target), "constructed-special-hash-board");
                    part.stats.nontrivial(fnv(st.text().as_bytes()));
                    if part.stats.samples.len() < 2 {
                        part.stats.samples.push(format!("'{:#}' constructed to hash to {:#018x}", b, target));
                    }
                    let origin = format!("bstate:{}", st.text());
                    if let Err(f) = check_board(&Visit { board: &b, pos: &p, step: &Step::Start, hist: &[], origin: &origin }) {
                        part.failures.push(f);
                        break;
                    }
                }
            }
        }
        rep.add(part);
    }
    rep
}

pub fn replay(m: &ReplayMap) -> CaseResult {
    if let Some(h) = m.get("text_hex") {
        let text = String::from_utf8(hex_decode(h).unwrap_or_default()).unwrap_or_default();
        for r in [cozy_chess::Board::from_fen(&text, false), cozy_chess::Board::from_fen(&text, true), text.parse::<cozy_chess::Board>()] {
            if let Ok(b) = r {
                let p = pos_of_board(&b);
                let origin = format!("text:{}", text);
                check_board(&Visit { board: &b, pos: &p, step: &Step::Start, hist: &[], origin: &origin })?;
            }
        }
        return Ok(());
    }
    if m.contains_key("route_a") {
        return super::c03::replay(m);
    }
    replay_positions(m, |v| check_board(v))
}
