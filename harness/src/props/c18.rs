//! C18 - bitboards behave as sets of squares.
use super::c17::arb_bits;
use super::*;
use cozy_chess::*;
use proptest::prelude::*;
use std::collections::BTreeSet;

fn set_of(x: u64) -> BTreeSet<u8> {
    (0..64u8).filter(|s| x & (1u64 << s) != 0).collect()
}
fn bits_of(s: &BTreeSet<u8>) -> u64 {
    s.iter().fold(0u64, |m, &b| m | 1u64 << b)
}

pub fn arb_pair() -> impl Strategy<Value = (u64, u64)> {
    prop_oneof![
        4 => (arb_bits(), arb_bits()),
        1 => arb_bits().prop_map(|a| (a, a)),
        1 => (arb_bits(), arb_bits()).prop_map(|(a, b)| (a, a & b)),
        1 => (arb_bits(), arb_bits()).prop_map(|(a, b)| (a & b, a)),
        1 => (arb_bits(), arb_bits()).prop_map(|(a, b)| (a & !b, b)),
        1 => arb_bits().prop_map(|a| (a, !a)),
    ]
}

pub fn check_pair(a: u64, b: u64, subset_limit: usize) -> CaseResult {
    let fail = |sig: &str, msg: String| Failure::new(sig, format!("a={:#018x} b={:#018x}: {}", a, b, msg)).with("a", format!("{:#018x}", a)).with("b", format!("{:#018x}", b));
    let (sa, sb) = (set_of(a), set_of(b));
    let (ba, bb) = (BitBoard(a), BitBoard(b));
    let bin = |name: &str, got: BitBoard, want: BTreeSet<u8>| -> CaseResult {
        if got.0 != bits_of(&want) {
            return Err(fail(&format!("C18:{}", name), format!("{} gives {:#018x}, the set operation gives {:#018x}", name, got.0, bits_of(&want))));
        }
        Ok(())
    };
    bin("union", ba | bb, sa.union(&sb).copied().collect())?;
    bin("intersection", ba & bb, sa.intersection(&sb).copied().collect())?;
    bin("symmetric-difference", ba ^ bb, sa.symmetric_difference(&sb).copied().collect())?;
    bin("difference", ba - bb, sa.difference(&sb).copied().collect())?;
    bin("complement", !ba, (0..64u8).filter(|s| !sa.contains(s)).collect())?;
    let mut t = ba;
    t |= bb;
    bin("union-assign", t, sa.union(&sb).copied().collect())?;
    let mut t = ba;
    t &= bb;
    bin("intersection-assign", t, sa.intersection(&sb).copied().collect())?;
    let mut t = ba;
    t ^= bb;
    bin("symmetric-difference-assign", t, sa.symmetric_difference(&sb).copied().collect())?;
    let mut t = ba;
    t -= bb;
    bin("difference-assign", t, sa.difference(&sb).copied().collect())?;

    let pred = |name: &str, got: bool, want: bool| -> CaseResult {
        if got != want {
            return Err(fail(&format!("C18:{}", name), format!("{} = {}, sets say {}", name, got, want)));
        }
        Ok(())
    };
    pred("is_subset", ba.is_subset(bb), sa.is_subset(&sb))?;
    pred("is_superset", ba.is_superset(bb), sa.is_superset(&sb))?;
    pred("is_disjoint", ba.is_disjoint(bb), sa.is_disjoint(&sb))?;
    pred("is_empty", ba.is_empty(), sa.is_empty())?;
    pred("len", ba.len() as usize == sa.len(), true)?;
    for s in 0..64u8 {
        pred("has", ba.has(lsq(s)), sa.contains(&s))?;
    }
    if ba.next_square().map(msq) != sa.iter().next().copied() {
        return Err(fail("C18:next_square", format!("next_square() = {:?}", ba.next_square())));
    }
    // iteration: ascending, no repeats, exact remaining length at every step
    let mut it = ba.iter();
    let mut seen: Vec<u8> = Vec::new();
    loop {
        let remaining = sa.len() - seen.len();
        if it.len() != remaining || it.size_hint() != (remaining, Some(remaining)) {
            return Err(fail("C18:iter-len", format!("after {} items iterator len() = {}, size_hint {:?}, expected {}", seen.len(), it.len(), it.size_hint(), remaining)));
        }
        match it.next() {
            Some(s) => seen.push(msq(s)),
            None => break,
        }
        if seen.len() > 64 {
            return Err(fail("C18:iter-runaway", "iterator yields more than 64 squares".into()));
        }
    }
    if seen != sa.iter().copied().collect::<Vec<_>>() {
        return Err(fail("C18:iteration", format!("iteration yields {:?}, members ascending are {:?}", seen, sa)));
    }
    let via_into: Vec<u8> = ba.into_iter().map(msq).collect();
    if via_into != seen {
        return Err(fail("C18:into_iter", "IntoIterator differs from iter()".into()));
    }
    // the standard iterator adaptors must agree with the member list too (an overriding
    // nth/count/last/fold may not leave the iterator in a state plain next() would not)
    let members: Vec<u8> = sa.iter().copied().collect();
    for k in [0usize, 1, 2, members.len().saturating_sub(1), members.len(), members.len() + 3, 64, 70] {
        let mut it = ba.iter();
        let got = it.nth(k).map(msq);
        if got != members.get(k).copied() {
            return Err(fail("C18:iter-nth", format!("iter().nth({}) = {:?}, the {}-th member is {:?}", k, got, k, members.get(k))));
        }
        let rest_want: Vec<u8> = members.iter().copied().skip(k + 1).collect();
        if it.len() != rest_want.len() || it.size_hint() != (rest_want.len(), Some(rest_want.len())) {
            return Err(fail("C18:iter-nth-state", format!("after nth({}) the iterator reports len {} / size_hint {:?}, {} members remain", k, it.len(), it.size_hint(), rest_want.len())));
        }
        let rest: Vec<u8> = it.map(msq).collect();
        if rest != rest_want {
            return Err(fail("C18:iter-nth-state", format!("after nth({}) the iterator yields {:?}, expected {:?}", k, rest, rest_want)));
        }
    }
    if ba.iter().count() != members.len() || ba.iter().last().map(msq) != members.last().copied() || ba.iter().max().map(msq) != members.last().copied() || ba.iter().min().map(msq) != members.first().copied() {
        return Err(fail("C18:iter-adaptors", "count()/last()/min()/max() disagree with the member list".into()));
    }
    if ba.iter().step_by(3).map(msq).collect::<Vec<_>>() != members.iter().copied().step_by(3).collect::<Vec<_>>() || ba.iter().skip(2).map(msq).collect::<Vec<_>>() != members.iter().copied().skip(2).collect::<Vec<_>>() {
        return Err(fail("C18:iter-adaptors", "step_by(3)/skip(2) disagree with the member list".into()));
    }
    if ba.iter().fold(0u64, |m, q| m | 1u64 << msq(q)) != a {
        return Err(fail("C18:iter-adaptors", "fold over the iterator does not rebuild the set".into()));
    }
    // the whole protocol on fresh / partially consumed / exhausted iterators, squares and subsets
    {
        let bits = fnv(&[a.to_le_bytes(), b.to_le_bytes()].concat());
        let model: Vec<Square> = members.iter().map(|&s| lsq(s)).collect();
        let steps = crate::iterproto::steps_from(bits, model.len());
        if let Err(e) = crate::iterproto::check_ord(&|| ba.iter(), &model, &steps, true) {
            return Err(fail("C18:iter-protocol", e));
        }
        // subsets of at most eight members of b (so that the model list stays small)
        let mut small = 0u64;
        for &s in sb.iter().take(1 + (bits >> 40) as usize % 8) {
            small |= 1u64 << s;
        }
        let mut subs: Vec<BitBoard> = Vec::new();
        let mut sub = 0u64;
        loop {
            subs.push(BitBoard(sub));
            sub = sub.wrapping_sub(small) & small;
            if sub == 0 {
                break;
            }
        }
        let steps = crate::iterproto::steps_from(bits >> 20, subs.len());
        if let Err(e) = crate::iterproto::check_ord(&|| BitBoard(small).iter_subsets(), &subs, &steps, false) {
            return Err(fail("C18:subset-protocol", format!("iter_subsets of {:#018x}: {}", small, e)));
        }
    }
    // collecting squares builds their set (also with duplicates and any order)
    let collected: BitBoard = sa.iter().rev().chain(sa.iter()).map(|&s| lsq(s)).collect();
    if collected.0 != a {
        return Err(fail("C18:from_iter", format!("collecting the member squares gives {:#018x}", collected.0)));
    }
    // many repeats first, the other members only after more than 64 items
    if let Some(&first) = members.first() {
        let long: BitBoard = std::iter::repeat(first).take(70).chain(members.iter().copied()).map(lsq).collect();
        if long.0 != a {
            return Err(fail("C18:from_iter", format!("collecting 70 repeats of one member followed by all members gives {:#018x}", long.0)));
        }
    }
    let none: BitBoard = std::iter::empty::<Square>().collect();
    if none.0 != 0 {
        return Err(fail("C18:from_iter", "collecting nothing is not the empty set".into()));
    }
    // flips
    let flip = |x: u64, f: &dyn Fn(i32, i32) -> (i32, i32)| -> u64 { set_of(x).iter().fold(0u64, |m, &s| { let (nf, nr) = f(file_of(s), rank_of(s)); m | 1u64 << sq(nf, nr) }) };
    if ba.flip_ranks().0 != flip(a, &|f, r| (f, 7 - r)) || ba.flip_ranks().flip_ranks().0 != a {
        return Err(fail("C18:flip_ranks", format!("flip_ranks gives {:#018x}", ba.flip_ranks().0)));
    }
    if ba.flip_files().0 != flip(a, &|f, r| (7 - f, r)) || ba.flip_files().flip_files().0 != a {
        return Err(fail("C18:flip_files", format!("flip_files gives {:#018x}", ba.flip_files().0)));
    }
    // subset iteration (on b): strictly increasing numerically, each a subset, first empty, last the mask, count 2^k
    let k = sb.len();
    let full = k <= 14;
    let limit = if full { 1usize << k } else { subset_limit };
    let mut prev: Option<u64> = None;
    let mut n = 0usize;
    let mut last = 0u64;
    for sub in bb.iter_subsets().take(limit + 1) {
        if sub.0 & !b != 0 {
            return Err(fail("C18:subset-not-subset", format!("iter_subsets of b yields {:#018x}", sub.0)));
        }
        match prev {
            None => {
                if sub.0 != 0 {
                    return Err(fail("C18:subset-first", format!("first subset is {:#018x}, not empty", sub.0)));
                }
            }
            Some(p) => {
                if sub.0 <= p {
                    return Err(fail("C18:subset-order", format!("subset {:#018x} follows {:#018x}: not strictly increasing", sub.0, p)));
                }
            }
        }
        prev = Some(sub.0);
        last = sub.0;
        n += 1;
    }
    if full {
        if n != 1usize << k {
            return Err(fail("C18:subset-count", format!("iter_subsets of a {}-bit mask yields {} subsets, expected {}", k, n, 1usize << k)));
        }
        if last != b {
            return Err(fail("C18:subset-last", format!("last subset is {:#018x}, not the mask", last)));
        }
    }
    Ok(())
}

pub fn check_conversions() -> Vec<Failure> {
    let mut fails = Vec::new();
    for s in 0..64u8 {
        if BitBoard::from(lsq(s)).0 != 1u64 << s || lsq(s).bitboard().0 != 1u64 << s {
            fails.push(Failure::new("C18:from-square", format!("BitBoard::from({}) wrong", sq_name(s))));
        }
    }
    for f in 0..8usize {
        let want: u64 = (0..8).fold(0, |m, r| m | 1u64 << (r * 8 + f));
        if BitBoard::from(File::index(f)).0 != want {
            fails.push(Failure::new("C18:from-file", format!("BitBoard::from(file {}) = {:#018x}", f, BitBoard::from(File::index(f)).0)));
        }
        let want: u64 = (0..8).fold(0, |m, c| m | 1u64 << (f * 8 + c));
        if BitBoard::from(Rank::index(f)).0 != want {
            fails.push(Failure::new("C18:from-rank", format!("BitBoard::from(rank {}) = {:#018x}", f, BitBoard::from(Rank::index(f)).0)));
        }
        let want_adj: u64 = (0..8).fold(0, |m, r| m | if f > 0 { 1u64 << (r * 8 + f - 1) } else { 0 } | if f < 7 { 1u64 << (r * 8 + f + 1) } else { 0 });
        if File::index(f).adjacent().0 != want_adj {
            fails.push(Failure::new("C18:file-adjacent", format!("File::adjacent({}) wrong", f)));
        }
    }
    if BitBoard::EMPTY.0 != 0 || BitBoard::FULL.0 != !0 || BitBoard::default().0 != 0 {
        fails.push(Failure::new("C18:constants", "EMPTY/FULL/default".into()));
    }
    let dark: u64 = (0..64u8).filter(|&s| (file_of(s) + rank_of(s)) % 2 == 0).fold(0, |m, s| m | 1u64 << s);
    if BitBoard::DARK_SQUARES.0 != dark || BitBoard::LIGHT_SQUARES.0 != !dark {
        fails.push(Failure::new("C18:constants", "DARK_SQUARES/LIGHT_SQUARES".into()));
    }
    let edges: u64 = (0..64u8).filter(|&s| file_of(s) == 0 || file_of(s) == 7 || rank_of(s) == 0 || rank_of(s) == 7).fold(0, |m, s| m | 1u64 << s);
    if BitBoard::EDGES.0 != edges || BitBoard::CORNERS.0 != (1 | 1 << 7 | 1 << 56 | 1 << 63) {
        fails.push(Failure::new("C18:constants", "EDGES/CORNERS".into()));
    }
    fails
}

pub fn run(ctx: &Ctx) -> Report {
    let mut rep = Report::new(ctx);
    rep.rule = "Pairs of 64-bit patterns from a density-varied generator (uniform, sparse, dense, single bits, ranks/files, empty/full; equal, nested, disjoint and complementary pairs). Model: BTreeSet<u8>. Checked: | & ^ - ! and assigning forms, has (all 64 squares), is_subset/is_superset/is_disjoint/is_empty/len, next_square, iteration ascending without repeats with exact len()/size_hint at every step, IntoIterator, the standard adaptors nth (incl. out of range, with the state left behind) / count / last / min / max / step_by / skip / fold, the iterator protocol (count, last, min, max, collect, fold, for_each, nth at and past the end, position, all, skip/step_by, size_hint) on square and subset iterators after a short generated program of next/nth/take steps incl. exhaustion, FromIterator (with duplicates, descending order, more than 64 items), flip_ranks/flip_files as involutions mapping (f,r) to (f,7-r)/(7-f,r), iter_subsets (strictly increasing, each a subset, first empty; for masks up to 14 bits all 2^k subsets with last == mask, for larger masks a prefix). Plus From<Square/File/Rank>, File::adjacent and the constants. Non-trivial = both operands non-empty and different; distinct by hash of the pair.".into();
    rep.assumptions = vec!["BTreeSet model of the 64 squares".into()];
    rep.required_classes = vec!["equal-pair", "nested-pair", "disjoint-pair", "complementary-pair", "subset-enumeration-complete", "subset-enumeration-prefix"];
    let cases = ctx.tier.scale(120_000, 30);
    rep.add(run_prop(ctx, "pairs", cases, arb_pair, |&(a, b): &(u64, u64), st: &mut Stats| {
        st.eval(1);
        st.class_if(a == b, "equal-pair");
        st.class_if(a != b && (a & b == a || a & b == b), "nested-pair");
        st.class_if(a & b == 0 && a != 0 && b != 0, "disjoint-pair");
        st.class_if(a == !b, "complementary-pair");
        st.class_if(b.count_ones() <= 14, "subset-enumeration-complete");
        st.class_if(b.count_ones() > 14, "subset-enumeration-prefix");
        if a != 0 && b != 0 && a != b {
            st.nontrivial(fnv(format!("{:x}|{:x}", a, b).as_bytes()));
        }
        st.sample(|| format!("a={:#018x} b={:#018x}", a, b));
        // the unary checks (iteration, adaptors, collecting, flips) run on the first operand, so
        // each pair is judged both ways round
        check_pair(a, b, 4096)?;
        check_pair(b, a, 4096)
    }));
    let mut conv = PartResult::empty();
    conv.stats.eval(64 + 8 * 3 + 6);
    conv.failures = check_conversions();
    rep.add(conv);
    rep
}

pub fn replay(m: &ReplayMap) -> CaseResult {
    let hex = |k: &str| m.get(k).and_then(|s| u64::from_str_radix(s.trim_start_matches("0x"), 16).ok());
    if let (Some(a), Some(b)) = (hex("a"), hex("b")) {
        return check_pair(a, b, 4096);
    }
    match check_conversions().into_iter().next() {
        Some(f) => Err(f),
        None => Ok(()),
    }
}
