//! C13 - same_position is exactly FIDE position identity.
use super::*;
use proptest::prelude::*;

pub fn ref_same(a: &Pos, b: &Pos) -> bool {
    a.board == b.board && a.stm == b.stm && a.rights == b.rights && a.legal_ep_file() == b.legal_ep_file()
}

pub fn check_pair(a: &Board, b: &Board, what: &str) -> CaseResult {
    let (pa, pb) = (pos_of_board(a), pos_of_board(b));
    let mk = |sig: &str, msg: String| Failure::new(sig, msg).with("bstate_a", RawState::from_pos(&pa).text()).with("bstate_b", RawState::from_pos(&pb).text());
    let want = ref_same(&pa, &pb);
    let got = a.same_position(b);
    let back = b.same_position(a);
    if got != back {
        return Err(mk("C13:not-symmetric", format!("{}: a.same_position(b) = {}, b.same_position(a) = {} for '{:#}' / '{:#}'", what, got, back, a, b)));
    }
    if got != want {
        let sig = if want { "C13:same-position-reported-different" } else { "C13:different-positions-reported-same" };
        return Err(mk(sig, format!("{}: same_position('{:#}', '{:#}') = {}, FIDE identity says {} (legal EP file: {:?} / {:?})", what, a, b, got, want, pa.legal_ep_file(), pb.legal_ep_file())));
    }
    if !a.same_position(a) || !b.same_position(b) {
        return Err(mk("C13:not-reflexive", format!("{}: a board is not the same position as itself", what)));
    }
    Ok(())
}

#[derive(Clone, Debug)]
struct PairCase {
    case: PosCase,
    other: PosCase,
    sel: u16,
    kind: u8,
}

fn variants(b: &Board, p: &Pos, sel: u16, kind: u8) -> Vec<(Board, &'static str)> {
    let mut out: Vec<(Board, &'static str)> = Vec::new();
    // clocks
    let mut c = b.clone();
    c.set_halfmove_clock((b.halfmove_clock() as u16 * 7 + 13) as u8 % 101);
    c.set_fullmove_number(b.fullmove_number() / 2 + 1);
    out.push((c, "other clocks"));
    let st = RawState::from_pos(p);
    // EP cleared
    if p.ep.is_some() {
        let mut s = st.clone();
        s.ep = None;
        if let Some(nb) = build(&s) {
            out.push((nb, "EP file cleared"));
        }
    }
    // EP set to another possible file
    let r3 = if p.stm == Side::W { 5 } else { 2 };
    for f in 0..8u8 {
        if Some(f) == p.ep {
            continue;
        }
        let mut s = st.clone();
        s.ep = Some(sq(f as i32, r3));
        if let Some(nb) = build(&s) {
            out.push((nb, "EP file set to another file"));
        }
    }
    // a right moved to another rook on the same wing (Chess960: two rooks on one side of the king)
    for side in 0..2 {
        for wing in 0..2 {
            if let Some(f) = st.rights[side][wing] {
                for g in 0..8u8 {
                    if g != f {
                        let mut s = st.clone();
                        s.rights[side][wing] = Some(g);
                        if let Some(nb) = build(&s) {
                            out.push((nb, "right moved to another rook"));
                        }
                    }
                }
            }
        }
    }
    // one feature changed
    let non_kings: Vec<u8> = (0..64u8).filter(|&s| matches!(p.board[s as usize], Some((k, _)) if k != Kind::K)).collect();
    let mut s = st.clone();
    match kind % 5 {
        0 => {
            if !non_kings.is_empty() {
                s.board[non_kings[(sel as usize * non_kings.len()) >> 16] as usize] = None;
            }
        }
        1 => {
            if !non_kings.is_empty() {
                let q = non_kings[(sel as usize * non_kings.len()) >> 16] as usize;
                let (k, c) = s.board[q].unwrap();
                s.board[q] = Some((if k == Kind::N { Kind::B } else { Kind::N }, c));
            }
        }
        2 => {
            let w = (sel % 4) as usize;
            let r = &mut s.rights[w / 2][w % 2];
            if r.is_some() {
                *r = None;
            } else {
                *r = Some((sel / 4 % 8) as u8);
            }
        }
        3 => {
            s.stm = s.stm.other();
            s.ep = None;
        }
        _ => {
            let e: Vec<u8> = (8..56u8).filter(|&q| p.board[q as usize].is_none()).collect();
            if !e.is_empty() {
                s.board[e[(sel as usize * e.len()) >> 16] as usize] = Some((Kind::N, if sel % 2 == 0 { Side::W } else { Side::B }));
            }
        }
    }
    if s != st {
        if let Some(nb) = build(&s) {
            out.push((nb, "one feature changed"));
        }
    }
    out
}

pub fn run(ctx: &Ctx) -> Report {
    let mut rep = Report::new(ctx);
    rep.rule = "Pairs: a board A from the generators (heavy weight on en-passant motifs: capturing pawn present/absent/pinned on file, rank or diagonal, capture exposing the king along the rank, mover in check with the capture being or not being a remedy, a bishop/queen/knight/king standing where a capturing pawn would stand) paired with: A with other clocks; A with the EP file cleared; A with the EP file moved to every other file the library accepts; A with one piece removed/retyped/added, a right toggled or the side flipped; A with a right moved to another own rook on the same wing (Chess960); an unrelated board; and triples (A, clocks, EP-cleared) for transitivity. Oracle: same placement, side and rights by the reference, and the reference's 'a legal EP capture exists, on file f' agrees; also reflexive and symmetric on every pair. In the thorough tier also pairs of different boards with EQUAL hashes, constructed by a generalised-birthday search over the extracted Zobrist keys (pairs differing only in piece kinds, and pairs differing only in piece colours). Non-trivial = at least one board of the pair has an EP file set, or a constructed collision pair; distinct by hash of both texts.".into();
    rep.assumptions = vec!["reference legal_ep_file(): make the capture, test the own king".into()];
    rep.required_classes = vec![
        "ep-set:capture-legal", "ep-set:no-capturer", "ep-set:capturer-illegal", "ep-set:non-pawn-on-capture-square", "pair:ep-cleared", "pair:ep-moved", "pair:other-clocks",
        "pair:one-feature-changed", "pair:unrelated", "pair:right-moved-to-another-rook", "expected-same", "expected-different",
    ];
    rep.add(run_prop(
        ctx,
        "pairs",
        ctx.tier.scale(150_000, 25),
        || (arb_case(1, 2, 9, 16), arb_case(1, 2, 2, 6), any::<u16>(), any::<u8>()).prop_map(|(case, other, sel, kind)| PairCase { case, other, sel, kind }),
        |pc: &PairCase, st: &mut Stats| {
            let Some((board, _)) = start_board(&pc.case.start) else {
                st.count("rejected-by-library", 1);
                return Ok(());
            };
            let other = start_board(&pc.other.start).map(|(b, _)| b);
            walk(board, &pc.case.ops, |b, p, _step, hist| {
                if !well_formed(b, p) {
                    return Ok(());
                }
                if let Some(epf) = p.ep {
                    // what stands next to the victim pawn?
                    let us = p.stm;
                    let r = if us == Side::W { 4 } else { 3 };
                    let mut pawn_there = false;
                    let mut non_pawn = false;
                    for df in [-1, 1] {
                        match p.at(epf as i32 + df, r) {
                            Some((Kind::P, c)) if c == us => pawn_there = true,
                            Some((k, c)) if c == us && k != Kind::P => non_pawn = true,
                            _ => {}
                        }
                    }
                    st.class(if p.legal_ep_file().is_some() {
                        "ep-set:capture-legal"
                    } else if pawn_there {
                        "ep-set:capturer-illegal"
                    } else {
                        "ep-set:no-capturer"
                    });
                    st.class_if(non_pawn, "ep-set:non-pawn-on-capture-square");
                    st.class_if(p.in_check(us), "ep-set:mover-in-check");
                }
                let vars = variants(b, p, pc.sel.wrapping_add(hist.len() as u16 * 977), pc.kind.wrapping_add(hist.len() as u8));
                let mut same_set: Vec<Board> = vec![b.clone()];
                for (o, what) in vars.iter().map(|(o, w)| (o, *w)).chain(other.iter().map(|o| (o, "unrelated board"))) {
                    st.eval(1);
                    let po = pos_of_board(o);
                    st.class(match what {
                        "other clocks" => "pair:other-clocks",
                        "EP file cleared" => "pair:ep-cleared",
                        "EP file set to another file" => "pair:ep-moved",
                        "one feature changed" => "pair:one-feature-changed",
                        "right moved to another rook" => "pair:right-moved-to-another-rook",
                        _ => "pair:unrelated",
                    });
                    let want = ref_same(p, &po);
                    st.class(if want { "expected-same" } else { "expected-different" });
                    if p.ep.is_some() || po.ep.is_some() {
                        st.nontrivial(fnv(format!("{}|{}", p.to_fen(true), po.to_fen(true)).as_bytes()));
                    }
                    st.sample(|| format!("'{}' vs '{}' ({}) -> expected {}", p.to_fen(true), po.to_fen(true), what, want));
                    check_pair(b, o, what)?;
                    if b.same_position(o) {
                        same_set.push(o.clone());
                    }
                }
                // transitivity inside the class of boards reported the same as A
                for x in &same_set {
                    for y in &same_set {
                        st.eval(1);
                        if !x.same_position(y) {
                            let (px, py) = (pos_of_board(x), pos_of_board(y));
                            return Err(Failure::new("C13:not-transitive", format!("'{:#}' is reported the same as '{:#}' and as '{:#}', but those two are reported different", b, x, y)).with("bstate_a", RawState::from_pos(&px).text()).with("bstate_b", RawState::from_pos(&py).text()));
                        }
                    }
                }
                Ok(())
            })
        },
    ));
    // thorough tier: pairs of different accepted boards whose hashes COLLIDE (constructed with a
    // 4-list birthday search over the extracted keys): same_position must not hide behind the hash
    if ctx.tier == Tier::Thorough {
        let mut part = PartResult::empty();
        if let Ok(m) = super::c10::model() {
            let kind_pairs = crate::collide::kind_collision_pairs(m, 16);
            let colour_pairs = crate::collide::colour_collision_pairs(m, 16);
            part.stats.count("constructed:kind-collision-pairs", kind_pairs.len() as u64);
            part.stats.count("constructed:colour-swap-collision-pairs", colour_pairs.len() as u64);
            for (a, b) in kind_pairs.into_iter().chain(colour_pairs) {
                let (Some(ba), Some(bb)) = (build(&a), build(&b)) else { continue };
                part.stats.eval(1);
                part.stats.class_if(ba.hash() == bb.hash(), "constructed-hash-collision-pair");
                part.stats.nontrivial(fnv(format!("{}|{}", a.text(), b.text()).as_bytes()));
                if part.stats.samples.len() < 2 {
                    part.stats.samples.push(format!("'{:#}' vs '{:#}' (equal hashes {:#018x})", ba, bb, ba.hash()));
                }
                if let Err(f) = check_pair(&ba, &bb, "constructed hash collision") {
                    part.failures.push(f);
                    break;
                }
            }
        }
        rep.add(part);
    }
    rep
}

pub fn replay(m: &ReplayMap) -> CaseResult {
    let get = |k: &str| m.get(k).and_then(|t| RawState::parse(t)).and_then(|s| build(&s));
    match (get("bstate_a"), get("bstate_b")) {
        (Some(a), Some(b)) => check_pair(&a, &b, "replayed pair"),
        _ => Err(Failure::new("bad-replay", "C13 replay needs bstate_a and bstate_b accepted by the library".into())),
    }
}
