//! C11 - the position hash separates positions that differ in a few features.
use super::*;
use crate::gen2::*;
use crate::keymodel::*;
use proptest::prelude::*;
use std::collections::{BTreeSet, HashMap, HashSet};

/// (a) key-level enumeration: every feature set of size 1..4 that can be the symmetric
/// difference of two boards, searched for a zero XOR with pair tables.
fn key_enumeration(st: &mut Stats) -> (Vec<Failure>, Vec<String>) {
    let mut fails = Vec::new();
    let mut unrealised = Vec::new();
    let m = match super::c10::model() {
        Ok(m) => m,
        Err(e) => return (vec![Failure::new("infrastructure", format!("key model extraction failed: {}", e))], unrealised),
    };
    let plain = m.plain_keys();
    let n = plain.len();
    let mut hits: Vec<BTreeSet<Feature>> = Vec::new();
    // size 1 and 2
    let mut by_key: HashMap<u64, usize> = HashMap::new();
    for (i, (f, k)) in plain.iter().enumerate() {
        st.eval(1);
        if *k == 0 {
            hits.push([*f].into_iter().collect());
        }
        if let Some(&j) = by_key.get(k) {
            hits.push([plain[j].0, *f].into_iter().collect());
        } else {
            by_key.insert(*k, i);
        }
    }
    // pair table
    let mut pairs: HashMap<u64, (u32, u32)> = HashMap::with_capacity(n * n / 2);
    for i in 0..n {
        for j in (i + 1)..n {
            st.eval(1);
            let x = plain[i].1 ^ plain[j].1;
            // size 3: x equals a third key
            if let Some(&k) = by_key.get(&x) {
                if k != i && k != j {
                    hits.push([plain[i].0, plain[j].0, plain[k].0].into_iter().collect());
                }
            }
            // size 4: x equals another pair
            if let Some(&(a, b)) = pairs.get(&x) {
                let (a, b) = (a as usize, b as usize);
                if a != i && a != j && b != i && b != j {
                    hits.push([plain[i].0, plain[j].0, plain[a].0, plain[b].0].into_iter().collect());
                }
            } else {
                pairs.insert(x, (i as u32, j as u32));
            }
        }
    }
    st.count("plain-keys", n as u64);
    st.count("distinct-pair-xors", pairs.len() as u64);
    // king pairs: one king move = two features
    let mut king_pair_vals: [HashMap<u64, (u8, u8)>; 2] = [HashMap::new(), HashMap::new()];
    for c in 0..2 {
        let side = if c == 0 { Side::W } else { Side::B };
        for s1 in 0..64u8 {
            for s2 in (s1 + 1)..64u8 {
                st.eval(1);
                let x = m.king[c][s1 as usize] ^ m.king[c][s2 as usize];
                let kp = [Feature::Piece(side, Kind::K, s1), Feature::Piece(side, Kind::K, s2)];
                if x == 0 {
                    hits.push(kp.into_iter().collect());
                }
                if let Some(&k) = by_key.get(&x) {
                    hits.push(kp.into_iter().chain([plain[k].0]).collect());
                }
                if let Some(&(a, b)) = pairs.get(&x) {
                    hits.push(kp.into_iter().chain([plain[a as usize].0, plain[b as usize].0]).collect());
                }
                king_pair_vals[c].insert(x, (s1, s2));
            }
        }
    }
    for (x, (s1, s2)) in &king_pair_vals[0] {
        st.eval(1);
        if let Some((t1, t2)) = king_pair_vals[1].get(x) {
            hits.push([Feature::Piece(Side::W, Kind::K, *s1), Feature::Piece(Side::W, Kind::K, *s2), Feature::Piece(Side::B, Kind::K, *t1), Feature::Piece(Side::B, Kind::K, *t2)].into_iter().collect());
        }
    }
    st.nontrivial_enumerated += (n + pairs.len() + 2 * 2016) as u64;
    st.count("zero-xor-feature-sets", hits.len() as u64);
    // A zero XOR is only a violation when two ACCEPTED boards realise that difference.
    let mut seen = HashSet::new();
    for d in hits {
        if !seen.insert(d.clone()) {
            continue;
        }
        let desc: Vec<String> = d.iter().map(|f| f.text()).collect();
        match realise(&d) {
            Some((a, b)) => {
                let (ba, bb) = (build(&a).unwrap(), build(&b).unwrap());
                if ba.hash() == bb.hash() {
                    if fails.len() < 4 {
                        fails.push(
                            Failure::new("C11:collision-at-small-feature-distance", format!("boards '{:#}' and '{:#}' differ in exactly {{{}}} but have the same hash {:#018x}", ba, bb, desc.join(", "), ba.hash()))
                                .with("bstate_a", a.text())
                                .with("bstate_b", b.text()),
                        );
                    }
                } else {
                    unrealised.push(format!("{{{}}}: keys XOR to zero but the realising boards hash differently (the hash is not key-linear here)", desc.join(", ")));
                }
            }
            None => {
                if unrealised.len() < 50 {
                    unrealised.push(format!("{{{}}}: no pair of accepted boards found that differs in exactly these features", desc.join(", ")));
                }
            }
        }
    }
    st.samples.push(format!("{} plain keys, {} distinct pair XORs, 2x2016 king-move XORs searched for a zero combination of 1..4 features", n, pairs.len()));
    (fails, unrealised)
}

#[derive(Clone, Debug)]
pub enum PairEdit {
    NullMove,
    PlayMove(u16, u8),
    ToggleRight(bool, bool, u8),
    MoveRight(bool, bool, u8),
    SetEp(u8),
    ClearEp,
    FlipSide,
    Recolour(u16),
    Retype(u16, u8),
    AddPiece(u8, u8, bool),
    RemovePiece(u16),
    MovePiece(u16, u8),
}

fn arb_pair_edit() -> impl Strategy<Value = PairEdit> {
    prop_oneof![
        2 => Just(PairEdit::NullMove),
        5 => (any::<u16>(), 0u8..16).prop_map(|(s, b)| PairEdit::PlayMove(s, b)),
        3 => (any::<bool>(), any::<bool>(), 0u8..8).prop_map(|(b, l, f)| PairEdit::ToggleRight(b, l, f)),
        3 => (any::<bool>(), any::<bool>(), 0u8..8).prop_map(|(b, l, f)| PairEdit::MoveRight(b, l, f)),
        3 => (0u8..8).prop_map(PairEdit::SetEp),
        2 => Just(PairEdit::ClearEp),
        2 => Just(PairEdit::FlipSide),
        2 => any::<u16>().prop_map(PairEdit::Recolour),
        2 => (any::<u16>(), 0u8..5).prop_map(|(s, k)| PairEdit::Retype(s, k)),
        2 => (0u8..64, 0u8..5, any::<bool>()).prop_map(|(s, k, b)| PairEdit::AddPiece(s, k, b)),
        2 => any::<u16>().prop_map(PairEdit::RemovePiece),
        2 => (any::<u16>(), 0u8..64).prop_map(|(s, t)| PairEdit::MovePiece(s, t)),
    ]
}

/// Apply an edit to an accepted board; the result is another library board or None.
fn apply_pair_edit(board: &cozy_chess::Board, pos: &Pos, e: &PairEdit) -> Option<cozy_chess::Board> {
    let non_kings = |p: &Pos| -> Vec<u8> { (0..64u8).filter(|&s| matches!(p.board[s as usize], Some((k, _)) if k != Kind::K)).collect() };
    let mut st = RawState::from_pos(pos);
    match e {
        PairEdit::NullMove => return board.null_move(),
        PairEdit::PlayMove(sel, bias) => {
            let legal = pos.legal_moves();
            let m = pick_move(pos, &legal, *sel, *bias)?;
            let mut b = board.clone();
            b.play(lmove(m));
            return Some(b);
        }
        PairEdit::ToggleRight(black, long, f) => {
            let r = &mut st.rights[*black as usize][*long as usize];
            *r = if r.is_some() { None } else { Some(*f) };
        }
        PairEdit::MoveRight(black, long, f) => {
            // move a right to another file / wing / colour where the placement supports it
            let cur = st.rights[*black as usize][*long as usize].take();
            cur?;
            let nb = if f % 2 == 0 { *black } else { !*black };
            st.rights[nb as usize][(*long as usize + (*f as usize / 2)) % 2] = Some(if f % 3 == 0 { cur.unwrap() } else { *f });
        }
        PairEdit::SetEp(f) => {
            let r3 = if st.stm == Side::W { 5 } else { 2 };
            let new = Some(sq(*f as i32, r3));
            if st.ep == new {
                return None;
            }
            st.ep = new;
        }
        PairEdit::ClearEp => {
            st.ep?;
            st.ep = None;
        }
        PairEdit::FlipSide => {
            st.stm = st.stm.other();
            st.ep = None;
        }
        PairEdit::Recolour(sel) => {
            let nk = non_kings(pos);
            if nk.is_empty() {
                return None;
            }
            let s = nk[(*sel as usize * nk.len()) >> 16] as usize;
            let (k, c) = st.board[s].unwrap();
            st.board[s] = Some((k, c.other()));
        }
        PairEdit::Retype(sel, k) => {
            let nk = non_kings(pos);
            if nk.is_empty() {
                return None;
            }
            let s = nk[(*sel as usize * nk.len()) >> 16] as usize;
            let (old, c) = st.board[s].unwrap();
            let new = Kind::ALL[*k as usize % 5];
            if new == old {
                return None;
            }
            st.board[s] = Some((new, c));
        }
        PairEdit::AddPiece(s, k, black) => {
            if st.board[*s as usize % 64].is_some() {
                return None;
            }
            st.board[*s as usize % 64] = Some((Kind::ALL[*k as usize % 5], if *black { Side::B } else { Side::W }));
        }
        PairEdit::RemovePiece(sel) => {
            let nk = non_kings(pos);
            if nk.is_empty() {
                return None;
            }
            st.board[nk[(*sel as usize * nk.len()) >> 16] as usize] = None;
        }
        PairEdit::MovePiece(sel, to) => {
            let all: Vec<u8> = (0..64u8).filter(|&s| pos.board[s as usize].is_some()).collect();
            let s = all[(*sel as usize * all.len()) >> 16] as usize;
            let t = *to as usize % 64;
            if st.board[t].is_some() {
                return None;
            }
            st.board[t] = st.board[s].take();
        }
    }
    build(&st)
}

#[derive(Clone, Debug)]
struct PairCase {
    case: PosCase,
    edits: Vec<PairEdit>,
}

pub fn check_pair(a: &cozy_chess::Board, b: &cozy_chess::Board) -> Result<usize, Failure> {
    let (pa, pb) = (pos_of_board(a), pos_of_board(b));
    let d: BTreeSet<Feature> = features(&pa).symmetric_difference(&features(&pb)).copied().collect();
    if (1..=4).contains(&d.len()) && a.hash() == b.hash() {
        return Err(Failure::new(
            "C11:collision-at-small-feature-distance",
            format!("boards '{:#}' and '{:#}' differ in exactly {{{}}} but have the same hash {:#018x}", a, b, d.iter().map(|f| f.text()).collect::<Vec<_>>().join(", "), a.hash()),
        )
        .with("bstate_a", RawState::from_pos(&pa).text())
        .with("bstate_b", RawState::from_pos(&pb).text()));
    }
    Ok(d.len())
}

pub fn run(ctx: &Ctx) -> Report {
    let mut rep = Report::new(ctx);
    rep.rule = "(a) Key-level enumeration, exhaustive over the observable key family: per-feature XOR keys are extracted through the public API from pairs of sparse accepted boards (all piece keys except pawns on ranks 1/8, 2x8 castle keys, 8 EP keys, the side key, and 2x63 king pseudo-keys giving all 2x2016 king-move differences); with pair-XOR hash tables every feature set of size 1..4 that can separate two boards (up to four plain features; one king move plus up to two plain features; a white and a black king move) is searched for a zero XOR. A zero XOR becomes a violation only when two concrete ACCEPTED boards realising exactly that difference are constructed and hash equal. (b) Direct pairs on realistic boards: a board from the generators and the same board after 1..2 edits (null move, played move, toggle/move a castling right between files, wings and colours, set/clear/change the EP file, flip the side, recolour/retype/add/remove/move a piece); both accepted, feature distance computed from the accessors; distance 1..4 requires different hashes. Non-trivial = each enumerated difference set (a) / pairs at distance >= 2 or touching rights/EP (b).".into();
    rep.assumptions = vec![
        "(a) rests on hash = XOR of per-feature keys, which C10 checks on every board it visits; single king keys and back-rank pawn keys cannot influence any pair of accepted boards".into(),
        "(b) is sampled".into(),
    ];
    rep.exhaustive = Some(true);
    rep.exhaustive_note = Some("(a): all feature-difference sets of size 1..4 over the observable key family; (b) is sampled".into());
    rep.required_classes = vec!["distance=1", "distance=2", "distance=3", "distance=4", "pair:rights-differ", "pair:ep-differs", "pair:side-differs", "pair:null-move", "pair:played-move"];
    // (a)
    let mut part = PartResult::empty();
    let (fails, unrealised) = key_enumeration(&mut part.stats);
    part.failures = fails;
    rep.extra.insert("unrealised_key_dependencies".into(), serde_json::json!(unrealised));
    if let Ok(m) = super::c10::model() {
        rep.extra.insert("castle_key_independent_of_wing".into(), serde_json::json!(m.castle_wing_independent));
        rep.extra.insert("key_model_notes".into(), serde_json::json!(m.notes));
    }
    rep.add(part);
    // (b)
    rep.add(run_prop(
        ctx,
        "pairs",
        ctx.tier.scale(300_000, 25),
        || (arb_case(2, 3, 5, 30), proptest::collection::vec(arb_pair_edit(), 1..3)).prop_map(|(case, edits)| PairCase { case, edits }),
        |pc: &PairCase, st: &mut Stats| {
            let Some((board, _origin)) = start_board(&pc.case.start) else {
                st.count("rejected-by-library", 1);
                return Ok(());
            };
            let mut last = board.clone();
            let _ = walk::<()>(board, &pc.case.ops, |b, _p, _s, _h| {
                last = b.clone();
                Ok(())
            });
            let pa = pos_of_board(&last);
            if !well_formed(&last, &pa) {
                return Ok(());
            }
            let mut cur = last.clone();
            for e in &pc.edits {
                let p = pos_of_board(&cur);
                match apply_pair_edit(&cur, &p, e) {
                    Some(b) => cur = b,
                    None => {
                        st.count("edit-not-applicable-or-rejected", 1);
                        return Ok(());
                    }
                }
            }
            let pb = pos_of_board(&cur);
            st.eval(1);
            let d = check_pair(&last, &cur)?;
            st.class(&match d {
                0 => "distance=0".to_string(),
                1..=4 => format!("distance={}", d),
                _ => "distance>4".to_string(),
            });
            if (1..=4).contains(&d) {
                st.class_if(pa.rights != pb.rights, "pair:rights-differ");
                st.class_if(pa.ep != pb.ep, "pair:ep-differs");
                st.class_if(pa.stm != pb.stm, "pair:side-differs");
                st.class_if(pc.edits.iter().any(|e| matches!(e, PairEdit::NullMove)), "pair:null-move");
                st.class_if(pc.edits.iter().any(|e| matches!(e, PairEdit::PlayMove(..))), "pair:played-move");
                if d >= 2 || pa.rights != pb.rights || pa.ep != pb.ep {
                    st.nontrivial(fnv(format!("{}|{}", pa.to_fen(true), pb.to_fen(true)).as_bytes()));
                }
                st.sample(|| format!("'{}' vs '{}' (distance {})", pa.to_fen(true), pb.to_fen(true), d));
            }
            Ok(())
        },
    ));
    let _ = arb_edit; // (edited-state generator is used by other properties)
    rep
}

pub fn replay(m: &ReplayMap) -> CaseResult {
    let get = |k: &str| m.get(k).and_then(|t| RawState::parse(t)).and_then(|s| build(&s));
    match (get("bstate_a"), get("bstate_b")) {
        (Some(a), Some(b)) => check_pair(&a, &b).map(|_| ()),
        _ => Err(Failure::new("bad-replay", "C11 replay needs bstate_a and bstate_b accepted by the library".into())),
    }
}
