//! Glue for the libFuzzer targets in /verif/fuzz: same oracles, failure -> replay file + abort.
use crate::bridge::*;
use crate::gen::*;
use crate::props::*;
use crate::runner::*;
use std::sync::Once;

static QUIET: Once = Once::new();

/// On a violation: write the replay file, print the VIOLATION line, abort (libFuzzer keeps the input).
pub fn report(id: &'static str, r: CaseResult) {
    if let Err(f) = r {
        if known_open_signatures(id).contains(&f.sig) {
            return;
        }
        let path = write_replay(id, &f, 900);
        eprintln!("fuzz violation: [{}] {}", f.sig, f.msg);
        println!("VIOLATION property={} replay={}", id, path.display());
        std::process::abort();
    }
}

pub fn san_on_seed_board(idx: usize, text: &str) -> CaseResult {
    QUIET.call_once(quiet_panics);
    let fens = seed_fens();
    let fen = fens[idx % fens.len()];
    let Ok(board) = cozy_chess::Board::from_fen(fen, true) else { return Ok(()) };
    let pos = pos_of_board(&board);
    let v = Visit { board: &board, pos: &pos, step: &Step::Start, hist: &[], origin: fen };
    c20::check_reader_string(&v, text)?;
    if let Some(parts) = c20::parse_parts(text) {
        c20::check_reader_parts(&v, &parts)?;
    }
    Ok(())
}

pub fn positions_from_bytes(data: &[u8]) -> Vec<(&'static str, CaseResult)> {
    QUIET.call_once(quiet_panics);
    if data.len() < 8 {
        return Vec::new();
    }
    let case = crate::fuzzdecode::pos_case(&mut crate::fuzzdecode::Reader::new(data));
    let Some((board, origin)) = start_board(&case.start) else { return Vec::new() };
    let mut out: Vec<(&'static str, CaseResult)> = Vec::new();
    let _ = walk::<()>(board, &case.ops, |b, p, step, hist| {
        if !well_formed(b, p) {
            return Ok(());
        }
        let v = Visit { board: b, pos: p, step, hist, origin: &origin };
        out.push(("C01", c01::check_board(b, p, &origin, hist)));
        out.push(("C03", c03::check_board(&v)));
        out.push(("C12", c12::check_board(&v)));
        out.push(("C14", c14::check_board(&v)));
        out.push(("C10", c10::check_board(&v)));
        for m in p.legal_moves() {
            let r = c02::check_move(&v, m);
            if r.is_err() {
                out.push(("C02", r));
                break;
            }
        }
        if out.iter().any(|(_, r)| r.is_err()) {
            return Err(());
        }
        out.clear();
        Ok(())
    });
    out.retain(|(_, r)| r.is_err());
    out
}

pub fn state_from_bytes(data: &[u8]) -> Vec<(&'static str, CaseResult)> {
    QUIET.call_once(quiet_panics);
    if data.len() < 8 {
        return Vec::new();
    }
    let st = crate::fuzzdecode::edited_state(&mut crate::fuzzdecode::Reader::new(data)).state();
    let mut out: Vec<(&'static str, CaseResult)> = Vec::new();
    out.push(("C06", c06::check_builder_state(&st)));
    out.push(("C09", c09::check_state(&st)));
    out.push(("C09", c09::check_labelled(&st).map(|_| ())));
    out.retain(|(_, r)| r.is_err());
    out
}
