//! Constructing positions in which a chosen move is the ONLY legal move.
//!
//! `status()` is wrong in a way no other check sees when it overlooks one kind of move and that
//! move happens to be the only one (en passant, castling, a two-square pawn block, ...). Such
//! positions are far too rare to meet by chance, so they are built: starting from a generated
//! position, a target move is chosen (rare kinds preferred) and every other legal move is spoiled
//! step by step with the reference model as the judge - the piece that makes it is removed, or
//! its destination is covered by a new enemy piece or occupied by a new own piece - as long as
//! the position stays structurally sound and the target stays legal.

use crate::refmodel::*;

fn rarity(p: &Pos, m: RMove) -> u32 {
    let (k, _) = p.board[m.from as usize].unwrap();
    if p.is_castle(m) || p.is_ep_capture(m) {
        0
    } else if k == Kind::P && (rank_of(m.to) - rank_of(m.from)).abs() == 2 {
        1
    } else if m.promo.is_some() {
        2
    } else if k == Kind::P {
        3
    } else if p.board[m.to as usize].is_some() && k != Kind::K {
        4
    } else if k != Kind::K {
        5
    } else {
        6
    }
}

fn sound(p: &Pos) -> bool {
    p.structural_defect().is_none()
}

fn drop_orphan_rights(p: &mut Pos) {
    for side in [Side::W, Side::B] {
        for wing in 0..2 {
            if let Some(f) = p.rights[side.idx()][wing] {
                if p.board[sq(f as i32, side.back_rank()) as usize] != Some((Kind::R, side)) {
                    p.rights[side.idx()][wing] = None;
                }
            }
        }
    }
}

/// Returns the reduced position and its only legal move, or None when the greedy search fails.
pub fn reduce_to_only_move(start: &Pos, sel: u64) -> Option<(Pos, RMove)> {
    let mut p = start.clone();
    if !sound(&p) {
        return None;
    }
    // one time in four: plant an own pawn on its start rank with two empty squares ahead, so
    // that a two-square push is among the candidates for the target
    let mut planted: Option<RMove> = None;
    if (sel >> 41) & 3 == 0 {
        let (r2, dir) = if p.stm == Side::W { (1, 1) } else { (6, -1) };
        let f0 = (sel >> 43) as i32 & 7;
        for i in 0..8 {
            let f = (f0 + i) % 8;
            if (0..3).all(|d| p.board[sq(f, r2 + dir * d) as usize].is_none()) && p.count(Kind::P, p.stm) < 8 && p.board.iter().filter(|x| matches!(x, Some((_, c)) if *c == p.stm)).count() < 16 {
                let mut q = p.clone();
                q.board[sq(f, r2) as usize] = Some((Kind::P, p.stm));
                let mv = RMove { from: sq(f, r2), to: sq(f, r2 + 2 * dir), promo: None };
                if sound(&q) && !q.in_check(q.stm.other()) && q.legal_moves().contains(&mv) {
                    p = q;
                    planted = Some(mv);
                    break;
                }
            }
        }
    }
    let moves = p.legal_moves();
    if moves.is_empty() {
        return None;
    }
    // the target: a kind of move is drawn among the kinds present (rare kinds weigh more), then a
    // move of that kind
    let weights = [4u64, 8, 2, 1, 1, 1, 1];
    let present: Vec<u32> = (0..7u32).filter(|&c| moves.iter().any(|&m| rarity(&p, m) == c)).collect();
    let total: u64 = present.iter().map(|&c| weights[c as usize]).sum();
    let mut pick = (sel & 0xffff) % total;
    let mut class = present[0];
    for &c in &present {
        if pick < weights[c as usize] {
            class = c;
            break;
        }
        pick -= weights[c as usize];
    }
    let c: Vec<RMove> = moves.iter().copied().filter(|&m| rarity(&p, m) == class).collect();
    let target = planted.unwrap_or(c[(sel >> 16) as usize % c.len()]);
    let greedy = planted.is_some() || (sel >> 40) & 1 == 0;
    let us = p.stm;
    let them = us.other();
    let mut rot = (sel >> 20) as usize;
    for _round in 0..40 {
        let legal = p.legal_moves();
        if !legal.contains(&target) {
            return None;
        }
        // (the four promotions of one pawn to one square count as one move)
        let others: Vec<RMove> = legal.iter().copied().filter(|&m| m.from != target.from || m.to != target.to).collect();
        if others.is_empty() {
            return Some((p, target));
        }
        let n_before = legal.len();
        let m = others[rot % others.len()];
        rot = rot.wrapping_mul(31).wrapping_add(7);
        let (mk, _) = p.board[m.from as usize].unwrap();
        let mut candidates: Vec<Pos> = Vec::new();
        // A: remove the piece that makes the move
        if mk != Kind::K && m.from != target.from {
            let mut q = p.clone();
            q.board[m.from as usize] = None;
            drop_orphan_rights(&mut q);
            candidates.push(q);
        }
        // B: an own piece on the destination (when it is empty and not needed by the target)
        if p.board[m.to as usize].is_none() && m.to != target.to && !p.is_castle(m) {
            for kind in [Kind::P, Kind::N, Kind::B] {
                if kind == Kind::P && (rank_of(m.to) == 0 || rank_of(m.to) == 7) {
                    continue;
                }
                let mut q = p.clone();
                q.board[m.to as usize] = Some((kind, us));
                candidates.push(q);
            }
        }
        // C: an enemy piece on any empty square (covers king destinations, gives a check that
        // only the target answers, pins the piece that moves, ...)
        for kind in [Kind::N, Kind::B, Kind::R, Kind::P, Kind::Q] {
            for s in 0..64u8 {
                if p.board[s as usize].is_some() || s == target.to || (kind == Kind::P && (rank_of(s) == 0 || rank_of(s) == 7)) {
                    continue;
                }
                if !greedy && mk == Kind::K {
                    // cheap variant: only pieces that attack the king's destination
                    let mut lifted = p.clone();
                    lifted.board[s as usize] = Some((kind, them));
                    lifted.board[m.from as usize] = None;
                    if !lifted.attackers(m.to, them).contains(&s) {
                        continue;
                    }
                } else if !greedy {
                    continue;
                }
                let mut q = p.clone();
                q.board[s as usize] = Some((kind, them));
                candidates.push(q);
            }
        }
        if candidates.is_empty() {
            continue;
        }
        let off = rot % candidates.len();
        let mut advanced = false;
        let mut best: Option<(usize, Pos)> = None;
        for i in 0..candidates.len() {
            let q = &candidates[(i + off) % candidates.len()];
            if !sound(q) || q.in_check(them) {
                continue;
            }
            // at most two checkers, like every accepted board
            if let Some(k) = q.king_sq(us) {
                if q.attackers(k, them).len() > 2 {
                    continue;
                }
            }
            let l = q.legal_moves();
            if l.contains(&target) && l.len() < n_before {
                if !greedy {
                    best = Some((l.len(), q.clone()));
                    break;
                }
                if best.as_ref().map_or(true, |b| l.len() < b.0) {
                    best = Some((l.len(), q.clone()));
                }
            }
        }
        if let Some((_, q)) = best {
            p = q;
            advanced = true;
        }
        if !advanced {
            rot = rot.wrapping_add(1);
        }
    }
    None
}
