//! Constructing hash collisions on purpose.
//!
//! Random generation can never produce two different boards with the same 64-bit hash, nor a
//! board whose hash is a given value. But the hash is an XOR of per-feature keys (checked by
//! C10), the keys can be extracted through the public API (`keymodel`), and a 4-list
//! generalised-birthday search (Wagner's k-tree) finds, in seconds, selections of keys that XOR
//! to a chosen target. That gives the checks inputs on which anything that *hides behind the
//! hash* shows: `==`, `same_position` or `hash()` short-cuts that are only wrong when hashes
//! collide or when the hash has a special value.

use crate::bridge::*;
use crate::keymodel::KeyModel;
use crate::refmodel::*;

/// One independent choice: exactly one option is taken; `options[j]` is its XOR contribution.
pub struct Group {
    pub options: Vec<u64>,
}

struct Block {
    /// (xor value, mixed-radix index of the selection)
    entries: Vec<(u64, u32)>,
    radices: Vec<usize>,
}

fn enumerate(groups: &[Group]) -> Block {
    let radices: Vec<usize> = groups.iter().map(|g| g.options.len()).collect();
    let total: usize = radices.iter().product();
    let mut entries = Vec::with_capacity(total);
    // iterative mixed-radix counter with incremental XOR
    let mut digits = vec![0usize; groups.len()];
    let mut value = groups.iter().fold(0u64, |v, g| v ^ g.options[0]);
    for idx in 0..total {
        entries.push((value, idx as u32));
        // increment
        let mut i = 0;
        while i < groups.len() {
            value ^= groups[i].options[digits[i]];
            digits[i] += 1;
            if digits[i] < radices[i] {
                value ^= groups[i].options[digits[i]];
                break;
            }
            digits[i] = 0;
            value ^= groups[i].options[0];
            i += 1;
        }
    }
    Block { entries, radices }
}

fn decode(mut idx: usize, radices: &[usize]) -> Vec<usize> {
    radices
        .iter()
        .map(|&r| {
            let d = idx % r;
            idx /= r;
            d
        })
        .collect()
}

/// Pairs (a in left, b in right) with (a.0 ^ b.0 ^ tweak) having its low `bits` bits zero.
fn join_low(left: &[(u64, u32)], right: &[(u64, u32)], tweak: u64, bits: u32, cap: usize) -> Vec<(u64, u32, u32)> {
    let mask = if bits >= 64 { !0u64 } else { (1u64 << bits) - 1 };
    // (masked value, position in `right`): the entries' own ids need not be positions
    let mut r: Vec<(u64, u32)> = right.iter().enumerate().map(|(pos, &(v, _))| (v & mask, pos as u32)).collect();
    r.sort_unstable();
    let mut out = Vec::new();
    for &(va, ia) in left {
        let key = (va ^ tweak) & mask;
        let mut lo = r.partition_point(|e| e.0 < key);
        while lo < r.len() && r[lo].0 == key {
            let (vb, ib) = right[r[lo].1 as usize];
            out.push((va ^ vb ^ tweak, ia, ib));
            if out.len() >= cap {
                return out;
            }
            lo += 1;
        }
    }
    out
}

/// Like `enumerate`, but only selections with at most `max_weight` groups on a non-zero option
/// index (option 0 is "nothing here"). The id of an entry is still its mixed-radix code.
fn enumerate_light(groups: &[Group], max_weight: usize) -> Block {
    let radices: Vec<usize> = groups.iter().map(|g| g.options.len()).collect();
    let mut place = vec![1usize; groups.len()];
    for i in 1..groups.len() {
        place[i] = place[i - 1] * radices[i - 1];
    }
    assert!(place.last().copied().unwrap_or(1).saturating_mul(*radices.last().unwrap_or(&1)) <= u32::MAX as usize);
    let mut entries = Vec::new();
    fn rec(groups: &[Group], place: &[usize], i: usize, left: usize, value: u64, code: usize, out: &mut Vec<(u64, u32)>) {
        if i == groups.len() {
            out.push((value, code as u32));
            return;
        }
        rec(groups, place, i + 1, left, value ^ groups[i].options[0], code, out);
        if left > 0 {
            for j in 1..groups[i].options.len() {
                rec(groups, place, i + 1, left - 1, value ^ groups[i].options[j], code + j * place[i], out);
            }
        }
    }
    rec(groups, &place, 0, max_weight, 0, 0, &mut entries);
    Block { entries, radices }
}

/// Selections (one option index per group) whose contributions XOR to `target`.
/// `groups.len()` must be divisible into four blocks; list sizes should be around 2^21..2^24.
pub fn four_list(groups: &[Group], target: u64, max_solutions: usize) -> Vec<Vec<usize>> {
    four_list_weighted(groups, target, max_solutions, usize::MAX)
}

/// `four_list` over selections that take a non-zero option in at most `max_weight` groups of each
/// of the four blocks (usize::MAX: no restriction).
pub fn four_list_weighted(groups: &[Group], target: u64, max_solutions: usize, max_weight: usize) -> Vec<Vec<usize>> {
    let n = groups.len();
    let q = n / 4;
    let bounds = [0, q, 2 * q, 3 * q, n];
    let blocks: Vec<Block> = (0..4)
        .map(|b| {
            let g = &groups[bounds[b]..bounds[b + 1]];
            if max_weight == usize::MAX {
                enumerate(g)
            } else {
                enumerate_light(g, max_weight)
            }
        })
        .collect();
    let size = blocks.iter().map(|b| b.entries.len()).min().unwrap_or(1).max(2);
    let bits = (usize::BITS - 1 - size.leading_zeros()).min(40);
    let cap = size.saturating_mul(6).max(1 << 20);
    let l12 = join_low(&blocks[0].entries, &blocks[1].entries, 0, bits, cap);
    let l34 = join_low(&blocks[2].entries, &blocks[3].entries, target, bits, cap);
    // final join on the whole value
    let mut right: Vec<(u64, usize)> = l34.iter().enumerate().map(|(i, e)| (e.0, i)).collect();
    right.sort_unstable();
    let mut out = Vec::new();
    for &(v, i1, i2) in &l12 {
        let mut lo = right.partition_point(|e| e.0 < v);
        while lo < right.len() && right[lo].0 == v {
            let (_, i3, i4) = l34[right[lo].1];
            let mut sel = decode(i1 as usize, &blocks[0].radices);
            sel.extend(decode(i2 as usize, &blocks[1].radices));
            sel.extend(decode(i3 as usize, &blocks[2].radices));
            sel.extend(decode(i4 as usize, &blocks[3].radices));
            out.push(sel);
            if out.len() >= max_solutions {
                return out;
            }
            lo += 1;
        }
    }
    out
}

/// Fixed frame: both kings in opposite corners behind a complete shield of their own men, so that
/// whatever stands on the free squares, no king is attacked (the squares from which a knight
/// would reach a king are left out of the free set).
fn frame() -> (RawState, Vec<(Sq, Side)>) {
    let mut st = RawState::empty();
    for (s, k, c) in [(sq(0, 0), Kind::K, Side::W), (sq(0, 1), Kind::P, Side::W), (sq(1, 1), Kind::P, Side::W), (sq(1, 0), Kind::N, Side::W), (sq(7, 7), Kind::K, Side::B), (sq(7, 6), Kind::P, Side::B), (sq(6, 6), Kind::P, Side::B), (sq(6, 7), Kind::N, Side::B)] {
        st.board[s as usize] = Some((k, c));
    }
    let forbidden = [sq(1, 2), sq(2, 1), sq(6, 5), sq(5, 6), sq(2, 0), sq(5, 7), sq(0, 2), sq(7, 5)];
    // twelve squares per colour, white ones low, black ones high, none of them able to host a
    // piece that attacks a king through or around the shields
    let mut free: Vec<(Sq, Side)> = Vec::new();
    let mut w = 0;
    let mut b = 0;
    for s in 0..64u8 {
        if st.board[s as usize].is_some() || forbidden.contains(&s) {
            continue;
        }
        let r = rank_of(s);
        if (1..=3).contains(&r) && w < 12 && file_of(s) >= 2 {
            free.push((s, Side::W));
            w += 1;
        } else if (4..=6).contains(&r) && b < 12 && file_of(s) <= 5 {
            free.push((s, Side::B));
            b += 1;
        }
    }
    (st, free)
}

fn key_of(m: &KeyModel, side: Side, kind: Kind, s: Sq) -> Option<u64> {
    let ki = Kind::ALL.iter().position(|x| *x == kind).unwrap();
    m.piece[side.idx()][ki][s as usize]
}

const KINDS5: [Kind; 5] = [Kind::N, Kind::B, Kind::R, Kind::Q, Kind::P];

fn free_squares_28(base: &RawState, free: &[(Sq, Side)]) -> Vec<(Sq, Side)> {
    let mut free = free.to_vec();
    for (s, side) in [(sq(6, 3), Side::W), (sq(7, 3), Side::W), (sq(6, 4), Side::B), (sq(7, 4), Side::B)] {
        if base.board[s as usize].is_none() && !free.iter().any(|f| f.0 == s) {
            free.push((s, side));
        }
    }
    free
}

/// Pairs of accepted boards with the same squares occupied by the same colours, different piece
/// kinds on at least three squares, and - according to the key model - the same hash.
/// Per free square the choice is "empty on both boards" or one of the ten unordered pairs of
/// different kinds (board A gets the first, board B the second); 28 squares give 11^28 = 2^97
/// selections, of which the 4-list search finds a few hundred XOR-ing to zero.
pub fn kind_collision_pairs(m: &KeyModel, max: usize) -> Vec<(RawState, RawState)> {
    let (base, free) = frame();
    if free.len() != 24 {
        return Vec::new();
    }
    let free = free_squares_28(&base, &free);
    if free.len() != 28 {
        return Vec::new();
    }
    let mut pairs: Vec<(usize, usize)> = Vec::new();
    for a in 0..5 {
        for b in (a + 1)..5 {
            pairs.push((a, b));
        }
    }
    let mut groups = Vec::new();
    for (gi, &(s, side)) in free.iter().enumerate() {
        // option 0 = empty on both boards (not offered for the first square, which rules out
        // the trivial all-empty solution); options 1..=10 = the kind pairs
        let mut options = if gi == 0 { Vec::new() } else { vec![0u64] };
        for &(a, b) in &pairs {
            let (Some(ka), Some(kb)) = (key_of(m, side, KINDS5[a], s), key_of(m, side, KINDS5[b], s)) else { return Vec::new() };
            options.push(ka ^ kb);
        }
        groups.push(Group { options });
    }
    let sols = four_list(&groups, 0, 4000);
    if std::env::var("VCHECK_DEBUG_COLLIDE").is_ok() {
        eprintln!("kind collision: {} groups, {} raw solutions", groups.len(), sols.len());
    }
    let mut out = Vec::new();
    for sel in sols {
        let (mut a, mut b) = (base.clone(), base.clone());
        for (gi, &(s, side)) in free.iter().enumerate() {
            let pi = if gi == 0 { sel[gi] + 1 } else { sel[gi] };
            if pi == 0 {
                continue;
            }
            let (ka, kb) = pairs[pi - 1];
            a.board[s as usize] = Some((KINDS5[ka], side));
            b.board[s as usize] = Some((KINDS5[kb], side));
        }
        if build(&a).is_some() && build(&b).is_some() {
            out.push((a, b));
            if out.len() >= max {
                break;
            }
        }
    }
    out
}

/// Accepted boards whose hash - according to the key model - is exactly `target`.
pub fn boards_with_hash(m: &KeyModel, target: u64, max: usize) -> Vec<RawState> {
    let (base, free) = frame();
    if free.len() != 24 {
        return Vec::new();
    }
    let free = free_squares_28(&base, &free);
    let Some(base_pos) = base.to_pos() else { return Vec::new() };
    let Some(base_hash) = m.predict(&base_pos) else { return Vec::new() };
    // per square: empty, or N/B/R/Q/P of either colour (pawns only off the back ranks; here always true)
    let mut groups = Vec::new();
    let mut decode_opt: Vec<Vec<Option<(Kind, Side)>>> = Vec::new();
    for &(s, _) in &free {
        let mut options = vec![0u64];
        let mut dec = vec![None];
        for side in [Side::W, Side::B] {
            for kind in [Kind::N, Kind::B, Kind::R, Kind::Q, Kind::P] {
                // keep the kings unattackable: no enemy piece kinds that could matter are excluded by the frame;
                // pawns next to a king file are harmless behind the shield
                if let Some(k) = key_of(m, side, kind, s) {
                    options.push(k);
                    dec.push(Some((kind, side)));
                }
            }
        }
        groups.push(Group { options });
        decode_opt.push(dec);
    }
    let mut out = Vec::new();
    for sel in four_list(&groups, target ^ base_hash, 4000) {
        let mut st = base.clone();
        for (gi, &(s, _)) in free.iter().enumerate() {
            st.board[s as usize] = decode_opt[gi][sel[gi]];
        }
        if build(&st).is_some() {
            out.push(st);
            if out.len() >= max {
                break;
            }
        }
    }
    out
}

/// Pairs of accepted boards with the same piece kinds on the same squares, the same side to move,
/// rights and en-passant state, DIFFERENT colours on some of the squares, and - according to the
/// key model - the same hash. Per free square the choice is "same on both boards (empty)" or one
/// of the kinds with the colour swapped between the boards, contributing key[white] ^ key[black];
/// at most six swapped squares per block of twelve keep each side within sixteen men.
pub fn colour_collision_pairs(m: &KeyModel, max: usize) -> Vec<(RawState, RawState)> {
    let (base, _) = frame();
    let forbidden = [sq(1, 2), sq(2, 1), sq(6, 5), sq(5, 6)];
    let free: Vec<Sq> = (0..64u8).filter(|&s| base.board[s as usize].is_none() && !forbidden.contains(&s)).collect();
    if free.len() < 48 {
        return Vec::new();
    }
    let free = &free[free.len() - 48..];
    let mut groups = Vec::new();
    let mut dec: Vec<Vec<Option<Kind>>> = Vec::new();
    for &s in free {
        let mut options = vec![0u64];
        let mut d = vec![None];
        for kind in KINDS5 {
            if kind == Kind::P && (rank_of(s) == 0 || rank_of(s) == 7) {
                continue;
            }
            let (Some(kw), Some(kb)) = (key_of(m, Side::W, kind, s), key_of(m, Side::B, kind, s)) else { return Vec::new() };
            options.push(kw ^ kb);
            d.push(Some(kind));
        }
        groups.push(Group { options });
        dec.push(d);
    }
    let sols = four_list_weighted(&groups, 0, 4000, 6);
    if std::env::var("VCHECK_DEBUG_COLLIDE").is_ok() {
        eprintln!("colour collision: {} groups, {} raw solutions", groups.len(), sols.len());
    }
    let mut out = Vec::new();
    for sel in sols {
        if sel.iter().all(|&j| j == 0) {
            continue;
        }
        let (mut a, mut b) = (base.clone(), base.clone());
        // alternate colours, pawns and pieces separately, so that both boards stay within limits
        let (mut np, mut no) = (0usize, 0usize);
        for (gi, &s) in free.iter().enumerate() {
            let Some(kind) = dec[gi][sel[gi]] else { continue };
            let n = if kind == Kind::P { &mut np } else { &mut no };
            let side = if *n % 2 == 0 { Side::W } else { Side::B };
            *n += 1;
            a.board[s as usize] = Some((kind, side));
            b.board[s as usize] = Some((kind, side.other()));
        }
        if build(&a).is_some() && build(&b).is_some() {
            out.push((a, b));
            if out.len() >= max {
                break;
            }
        }
    }
    out
}
