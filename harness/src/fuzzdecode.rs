//! Hand-written decoding of fuzzer bytes into the same structured cases the proptest
//! strategies generate (start + ops, edited builder states). Total and terminating for every
//! byte string: an exhausted reader yields zeros. (proptest's pass-through RNG cannot be used for
//! this: it splits its data in halves at every nested strategy and, once a half is used up, feeds
//! zeros to rand's rejection sampler, which then never returns.)
use crate::gen::*;
use crate::gen2::*;

pub struct Reader<'a> {
    data: &'a [u8],
    pos: usize,
}

impl<'a> Reader<'a> {
    pub fn new(data: &'a [u8]) -> Self {
        Reader { data, pos: 0 }
    }
    pub fn u8(&mut self) -> u8 {
        let b = self.data.get(self.pos).copied().unwrap_or(0);
        self.pos += 1;
        b
    }
    pub fn u16(&mut self) -> u16 {
        u16::from_le_bytes([self.u8(), self.u8()])
    }
    pub fn u32(&mut self) -> u32 {
        u32::from_le_bytes([self.u8(), self.u8(), self.u8(), self.u8()])
    }
    pub fn bool(&mut self) -> bool {
        self.u8() & 1 == 1
    }
    pub fn below(&mut self, n: u8) -> u8 {
        self.u8() % n.max(1)
    }
    pub fn i8_in(&mut self, lo: i8, hi: i8) -> i8 {
        lo + (self.u8() % (hi - lo) as u8) as i8
    }
}

pub fn motif(r: &mut Reader) -> Motif {
    match r.below(17) {
        0 => Motif::None,
        15 => Motif::PromoGlut { black: r.bool(), kind_sel: r.below(4), count: r.below(5), squares: { let mut k = [0u8; 12]; for x in k.iter_mut() { *x = r.u8(); } k }, pawn_files: { let n = 1 + r.below(3); (0..n).map(|_| r.below(8)).collect() }, enemy_k: r.u8() },
        14 => Motif::Dense { phases: r.u8(), kinds: { let mut k = [0u8; 32]; for x in k.iter_mut() { *x = r.u8(); } k }, drop: r.below(3), rich: r.bool() },
        13 => Motif::SliderSwarm { black: r.bool(), corner: r.below(4), file_n: r.below(5), rank_n: r.below(5), diag_n: r.below(3), diag_queen_far: r.bool() },
        12 => Motif::CastleMate { black: r.bool(), long: r.bool(), variant: r.below(4) },
        11 => Motif::CastleOnly { black: r.bool(), long: r.bool(), cover_queen: r.bool(), cover_dist: r.below(4), drop: r.below(4) },
        10 => Motif::EpStalemate { black: r.bool(), file: r.below(6), capturer_right: r.bool(), dir: r.below(4), dk: r.below(4), ds: r.below(4), with_slider: r.below(4) != 0, queen: r.bool() },
        1 => {
            let (black, kf, short_sel, long_sel) = (r.bool(), r.below(8), r.u8(), r.u8());
            let attackers = (0..r.below(4)).map(|_| (r.u8(), r.below(8), r.below(7), r.u8())).collect();
            let blockers = (0..r.below(3)).map(|_| (r.below(8), r.u8(), r.bool())).collect();
            Motif::Castle { black, kf, short_sel, long_sel, attackers, blockers }
        }
        2 => Motif::Ep { black_mover: r.bool(), file: r.below(8), left: r.below(9), right: r.below(9), king_mode: r.below(9), a: r.u8(), b: r.u8(), c: r.u8() },
        3 => {
            let (black, ksq) = (r.bool(), r.below(64));
            let rays = (0..1 + r.below(4))
                .map(|_| {
                    let (d, k, ds) = (r.below(8), r.below(6), r.below(7));
                    let bl = (0..r.below(3)).map(|_| (r.below(6), r.below(8), r.bool())).collect();
                    (d, k, ds, bl)
                })
                .collect();
            let knight = if r.below(3) == 0 { Some(r.below(8)) } else { None };
            let pawn = if r.below(4) == 0 { Some(r.below(2)) } else { None };
            Motif::Pins { black, ksq, rays, knight, pawn }
        }
        4 => {
            let black = r.bool();
            let pawns = (0..1 + r.below(3)).map(|_| r.below(8)).collect();
            let targets = (0..r.below(4)).map(|_| (r.below(8), r.below(6))).collect();
            Motif::Promo { black, pawns, targets, enemy_kf: r.below(6), enemy_rights: r.bool() }
        }
        5 => {
            let (black, ksq) = (r.bool(), r.u8());
            let pieces = (0..1 + r.below(4)).map(|_| (r.u8(), r.i8_in(-3, 4), r.i8_in(-3, 4))).collect();
            Motif::Net { black, ksq, pieces, enemy_k: (r.i8_in(-3, 4), r.i8_in(-3, 4)) }
        }
        6 => Motif::PreEp { black: r.bool(), file: r.below(8), dir: r.below(6), dk: r.below(5), ds: r.below(5), queen: r.bool(), capturers: r.below(4) },
        7 => {
            let (black, ep_file) = (r.bool(), r.below(6));
            let mut pawn_ranks = [0u8; 8];
            for p in pawn_ranks.iter_mut() {
                *p = r.u8();
            }
            let pieces = (0..5).map(|_| (r.u8(), r.below(32))).collect();
            Motif::Crowded { black, ep_file, pawn_ranks, pieces, enemy_kf: r.below(8) }
        }
        8 => Motif::Battery { black: r.bool(), ksq: r.below(64), dir: r.below(8), dist: r.below(6), blocker_dist: r.below(6), slider_queen: r.bool(), blocker_kind: r.below(6), corner: r.below(4), boxed: r.below(8) },
        9 => Motif::BatteryStalemate { black: r.bool(), right_corner: r.bool(), d: r.below(5), kf: r.below(2), p3_right: r.bool(), blocker_kind: r.below(4) },
        _ => Motif::None,
    }
}

pub fn ingredients(r: &mut Reader) -> Ingredients {
    let motif = motif(r);
    let (wk, bk) = (r.below(64), r.below(64));
    let n = match r.below(4) {
        0 => r.below(4),
        1 => r.below(10),
        2 => 5 + r.below(15),
        _ => 15 + r.below(16),
    };
    let extras = (0..n).map(|_| (r.below(16), r.bool(), r.below(64))).collect();
    Ingredients {
        motif,
        wk,
        bk,
        extras,
        stm_black: r.bool(),
        rights_sel: [r.u8(), r.u8(), r.u8(), r.u8()],
        ep_sel: r.u8(),
        hm_sel: r.u8(),
        hm_raw: r.u8(),
        fm_sel: r.u8(),
        fm_raw: r.u16(),
        keep_multi: r.u8() < 13,
    }
}

pub fn ops(r: &mut Reader, max: u8) -> Vec<Op> {
    (0..r.below(max))
        .map(|_| match r.below(36) {
            0..=29 => Op::Move { sel: r.u16(), bias: r.below(16) },
            30..=33 => Op::Null,
            34 => Op::SetHm([0, 1, 49, 98, 99, 100][r.below(6) as usize]),
            _ => Op::SetFm([1, 2, 65534, 65535][r.below(4) as usize]),
        })
        .collect()
}

pub fn pos_case(r: &mut Reader) -> PosCase {
    let start = match r.below(10) {
        0 | 1 => Start::Dfrc(r.u16() as u32 % 960, r.u16() as u32 % 960),
        2 => Start::Seed(r.u16() as usize),
        3 => Start::Edited(Box::new(edited_state(r))),
        _ => Start::Built(Box::new(ingredients(r))),
    };
    let mut ops = ops(r, 40);
    if let Start::Built(ing) = &start {
        if matches!(ing.motif, Motif::PreEp { .. }) {
            ops.insert(0, Op::Move { sel: ing.fm_raw.wrapping_mul(40503), bias: 5 });
        }
        if let Motif::Ep { king_mode, .. } = &ing.motif {
            if king_mode % 9 >= 7 || ing.ep_sel & 16 != 0 {
                ops.insert(0, Op::Move { sel: ing.fm_raw.wrapping_mul(40503), bias: 4 });
            }
        }
        if matches!(ing.motif, Motif::Battery { .. } | Motif::BatteryStalemate { .. }) {
            ops.insert(0, Op::Null);
        }
    }
    PosCase { start, ops }
}

pub fn edit(r: &mut Reader) -> Edit {
    match r.below(13) {
        0 => Edit::Put(r.below(64), r.below(6), r.bool()),
        1 => Edit::Remove(r.u16()),
        2 => Edit::KingsAdjacent(r.below(8)),
        3 => Edit::SetRight(r.bool(), r.bool(), if r.below(5) == 0 { None } else { Some(r.below(8)) }),
        4 => Edit::SetEp(if r.below(7) == 0 { None } else { Some(r.below(64)) }),
        5 => Edit::SetHm([100, 101, 255, 99, 0][r.below(5) as usize]),
        6 => Edit::SetFm([0, 1, 65535, 2][r.below(4) as usize]),
        7 => Edit::FlipStm,
        8 => Edit::NinthPawn(r.bool()),
        9 => Edit::SeventeenthMan(r.bool()),
        10 => Edit::CheckWaitingSide(r.below(6)),
        11 => Edit::ExtraCheckers(r.below(8)),
        _ => Edit::MoveKing(r.bool(), r.below(64)),
    }
}

pub fn edited_state(r: &mut Reader) -> EditedState {
    let base = ingredients(r);
    let edits = (0..r.below(4)).map(|_| edit(r)).collect();
    EditedState { base, edits }
}
