#!/usr/bin/env python3
"""Prints the markdown tables for DESIGN.md section 8 from work/mutants/results.txt (hand-written mutants)
and seeded/*/meta.json (independently written changes)."""
import json, re, glob, os
idx={m['name']:m for m in json.load(open('/verif/mutants/index.json'))}
res={}
for line in open('/verif/work/mutants/results.txt'):
    m=re.match(r'mutants/(\S+)\.diff tier=(\S+) caught:\[(.*?)\] silent:\[(.*?)\] infra:\[(.*?)\]',line)
    if m and m.group(1) in idx: res[m.group(1)]=(m.group(3).split(),m.group(4).split(),m.group(5).split())
print("| hand-written mutant (mutants/<name>.diff) | file | checks run | caught by | silent |")
print("|---|---|---|---|---|")
for name in sorted(idx):
    if name not in res: continue
    c,s,i=res[name]
    print(f"| {name} | {os.path.basename(idx[name]['file'])} | {' '.join(idx[name]['expected'])} | {' '.join(c) or '-'} | {' '.join(s) or '-'} |")
print()
print("| seeded change | breaks | what it needs to manifest | quick checks that report it | first caught after |")
print("|---|---|---|---|---|")
for d in sorted(glob.glob('/verif/seeded/*/meta.json')):
    m=json.load(open(d))
    q=m.get('checks',{}).get('quick',{})
    caught=q.get('caught_by',[])
    own=m['property'] in caught
    note=m.get('notes','')
    needs=m.get('needs','').replace('|','/').replace('\n',' ')
    if len(needs)>160: needs=needs[:157]+'...'
    print(f"| {m['id']} | {m['property']} | {needs} | {' '.join(caught) or 'none'}{'' if own else ' (**not by '+m['property']+'**)'} | {note or 'as first built'} |")
