#!/usr/bin/env python3
"""Prints the markdown tables for DESIGN.md section 8 from work/mutants/results.txt (hand-written mutants)
and seeded/*/meta.json (independently written changes)."""
import json, re, glob, os
idx={m['name']:m for m in json.load(open('/verif/mutants/index.json'))}
res={}
for line in open('/verif/seeded/results/lane_results.txt'):
    m=re.match(r'mutants/(\S+)\.diff tier=(\S+) caught:\[(.*?)\] silent:\[(.*?)\] infra:\[(.*?)\]',line)
    if m and m.group(1) in idx: res[m.group(1)]=(m.group(3).split(),m.group(4).split(),m.group(5).split())
print("| hand-written mutant (mutants/<name>.diff) | file | checks run | caught by | silent |")
print("|---|---|---|---|---|")
for name in sorted(idx):
    if name not in res: continue
    c,s,i=res[name]
    print(f"| {name} | {os.path.basename(idx[name]['file'])} | {' '.join(idx[name]['expected'])} | {' '.join(c) or '-'} | {' '.join(s) or '-'} |")
print()
print("| seeded change | breaks | what it needs to manifest | quick checks reporting it in the first run | caught by its own property's check |")
print("|---|---|---|---|---|")
for d in sorted(glob.glob('/verif/seeded/*/meta.json')):
    m=json.load(open(d))
    first=m.get('checks',{}).get('first_run',{})
    caught=first.get('caught_by',[])
    own_first=m.get('caught_by_own_property_in_first_run')
    own_now=m.get('caught_by_own_property_now')
    needs=m.get('needs','').replace('|','/').replace('\n',' ')
    if len(needs)>150: needs=needs[:147]+'...'
    status='yes' if own_first else ('after strengthening: '+m.get('notes','see text') if own_now else 'NO: '+m.get('notes',''))
    print(f"| {m['id']} | {m['property']} | {needs} | {' '.join(caught) or 'none'} | {status} |")
