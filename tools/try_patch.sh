#!/usr/bin/env bash
# tools/try_patch.sh <patch.diff> [tier] [ID ...]
# Applies a patch to /repo, runs the given checks (default: all twenty, quick), prints which
# ones report a violation, and ALWAYS restores /repo afterwards. Used for sensitivity testing.
set -u
PATCH="$(readlink -f "$1")"; shift
TIER="quick"
if [ "${1:-}" = quick ] || [ "${1:-}" = thorough ]; then TIER="$1"; shift; fi
IDS="${*:-C01 C02 C03 C04 C05 C06 C07 C08 C09 C10 C11 C12 C13 C14 C15 C16 C17 C18 C19 C20}"
cd /verif
if [ -n "$(git -C /repo status --porcelain)" ]; then echo "refusing: /repo has local changes" >&2; exit 2; fi
restore() { git -C /repo checkout -- . ; git -C /repo clean -fdq -e target; }
trap restore EXIT
if ! git -C /repo apply "$PATCH"; then echo "patch does not apply" >&2; exit 2; fi
CAUGHT=""; MISSED=""; BROKEN=""
for id in $IDS; do
  out="$(./check "$id" "$TIER" 2>&1)"; rc=$?
  if [ $rc -eq 1 ]; then CAUGHT="$CAUGHT $id"; echo "$out" | grep -m2 "violation detail" | cut -c1-300
  elif [ $rc -eq 0 ]; then MISSED="$MISSED $id"
  else BROKEN="$BROKEN $id"; echo "$out" | tail -3 | cut -c1-300; fi
done
echo "PATCH $(basename "$(dirname "$PATCH")")/$(basename "$PATCH") tier=$TIER caught_by:[$CAUGHT ] silent:[$MISSED ] infrastructure:[$BROKEN ]"
