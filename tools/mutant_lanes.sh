#!/usr/bin/env bash
# tools/mutant_lanes.sh <lanes> <patch-list-file> [tier]
# Sensitivity runs WITHOUT touching /repo: each lane gets its own scratch worktree of /repo and its own
# copy of /verif (harness path rewritten to the lane's worktree) under /tmp/mut/lane<k>. The list file has
# lines "<patch path> <ID> [<ID> ...]". Results are appended to /verif/work/mutants/results.txt.
# Everything under /tmp/mut is removed at the end.
set -u
LANES="$1"; LIST="$(readlink -f "$2")"; TIER="${3:-quick}"
SRC="${VERIF_SRC:-/verif}"   # which copy of the machinery to run (an older checkout for 'as it stood' runs)
OUT=/verif/work/mutants; mkdir -p "$OUT"
setup_lane() {
  local k="$1" d="/tmp/mut/lane$1"
  rm -rf "$d"; mkdir -p "$d"
  git -C /repo worktree add -q --detach "$d/repo" HEAD || exit 2
  rsync -a --exclude 'target*' --exclude work --exclude .git --exclude 'fuzz/target' --exclude 'fuzz/artifacts' "$SRC/" "$d/verif/"
  sed -i "s#path = \"/repo/cozy-chess\"#path = \"$d/repo/cozy-chess\"#" "$d/verif/harness/Cargo.toml"
}
run_lane() {
  local k="$1" d="/tmp/mut/lane$1" n=0
  while read -r patch ids; do
    n=$((n+1)); [ $(( (n-1) % LANES )) -eq "$k" ] || continue
    [ -z "$patch" ] && continue
    git -C "$d/repo" checkout -q -- . ; git -C "$d/repo" clean -fdq
    if ! git -C "$d/repo" apply "$patch" 2>/dev/null; then echo "$(basename "$patch") APPLY-FAILED" >> "$OUT/results.txt"; continue; fi
    caught=""; silent=""; infra=""
    for id in $ids; do
      out="$(cd "$d/verif" && ./check "$id" "$TIER" 2>&1)"; rc=$?
      case $rc in
        1) caught="$caught $id"; echo "$out" | grep -m1 "violation detail" | cut -c1-260 > "$OUT/$(basename "$patch" .diff).$id.detail" ;;
        0) silent="$silent $id" ;;
        *) infra="$infra $id"; echo "$out" | tail -5 > "$OUT/$(basename "$patch" .diff).$id.infra" ;;
      esac
    done
    echo "$(basename "$(dirname "$patch")")/$(basename "$patch") tier=$TIER caught:[$caught ] silent:[$silent ] infra:[$infra ]" >> "$OUT/results.txt"
  done < "$LIST"
}
for k in $(seq 0 $((LANES-1))); do setup_lane "$k"; done
for k in $(seq 0 $((LANES-1))); do run_lane "$k" & done
wait
for k in $(seq 0 $((LANES-1))); do git -C /repo worktree remove --force "/tmp/mut/lane$k/repo"; done
rm -rf /tmp/mut
echo "done; results in $OUT/results.txt"
