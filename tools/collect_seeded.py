#!/usr/bin/env python3
"""Collects confirmed seeded changes from /tmp/seeded/<ID>/m<k>/ into /verif/seeded/<ID>-m<k>/ and
(re)writes meta.json with: the property, what the change needs to manifest, the confirmation I ran
(demo on clean tree / with patch, repository suite with patch) and which quick checks caught it.
Usage: collect_seeded.py [results-file ...]   (lane result files with lines '<dir>/<patch> tier=.. caught:[..] silent:[..] infra:[..]')"""
import json, os, re, shutil, sys, glob
SRC='/tmp/seeded'; DST='/verif/seeded'
confirm={}
for line in open('/verif/seeded/results/confirmations.txt'):
    m=re.match(r'(\S+)/(m\d+) demo_clean=(\S+) demo_patched=(\S+) suite=(\S+) (\S+)',line)
    if m: confirm[(m.group(1),m.group(2))]=dict(demo_clean=int(m.group(3)),demo_patched=int(m.group(4)),suite=int(m.group(5)),verdict=m.group(6))
runs={}   # (pid,k) -> list of result dicts in file order
for f in sys.argv[1:]:
    for line in open(f):
        m=re.match(r'(\S+?)-(m\d+)/patch\.diff tier=(\S+) caught:\[(.*?)\] silent:\[(.*?)\] infra:\[(.*?)\]',line)
        if m:
            runs.setdefault((m.group(1),m.group(2)),[]).append(dict(tier=m.group(3),caught=m.group(4).split(),silent=m.group(5).split(),infra=m.group(6).split()))
os.makedirs(DST,exist_ok=True)
n=0
for (pid,k),c in sorted(confirm.items()):
    src=f'{SRC}/{pid}/{k}'
    dst=f'{DST}/{pid}-{k}'
    if not c['verdict'].startswith('CONFIRMED'): continue
    if os.path.exists(src+'/patch.diff'):
        os.makedirs(dst,exist_ok=True)
        shutil.copy(src+'/patch.diff',dst+'/patch.diff'); shutil.copy(src+'/demo.rs',dst+'/demo.rs')
        try: meta=json.load(open(src+'/meta.json'))
        except Exception: meta={}
    elif os.path.exists(dst+'/meta.json'):
        meta=json.load(open(dst+'/meta.json'))   # scratch copies are gone: keep what was collected
    else:
        continue
    out={"id":f"{pid}-{k}","property":pid,"summary":meta.get("summary",""),"needs":meta.get("needs",""),
         "demo":"demo.rs is a cargo example: copy to cozy-chess/examples/demo.rs, run `cargo run --offline --example demo`; exits 0 on the unchanged library, panics with patch.diff applied",
         "author":"independent sub-agent given only the property text and a scratch worktree",
         "confirmed_by_me":{"worktree":f"scratch worktree of /repo HEAD under /tmp/wt/{pid} (removed afterwards)","demo_exit_on_clean_tree":c['demo_clean'],"demo_exit_with_patch":c['demo_patched'],"repo_suite_exit_with_patch (cargo test --workspace --no-fail-fast --offline)":c['suite']},
         "checks":{}}
    rs=runs.get((pid,k),[])
    if rs:
        first=rs[0]
        out["checks"]["first_run"]={"tier":first['tier'],"checks_run":sorted(first['caught']+first['silent']+first['infra']),"caught_by":first['caught'],"silent":first['silent'],"infrastructure":first['infra']}
        out["caught_by_own_property_in_first_run"]= pid in first['caught']
        later=[r for r in rs[1:]]
        if later:
            out["checks"]["after_strengthening"]=[{"tier":r['tier'],"checks_run":sorted(r['caught']+r['silent']+r['infra']),"caught_by":r['caught'],"silent":r['silent']} for r in later]
        out["caught_by_own_property_now"]= any(pid in r['caught'] for r in rs)
    notes_file=f'/verif/seeded/notes/{pid}-{k}.txt'
    if os.path.exists(notes_file): out["notes"]=open(notes_file).read().strip()
    json.dump(out,open(dst+'/meta.json','w'),indent=1)
    n+=1
print("collected",n,"seeded changes into",DST)
