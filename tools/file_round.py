#!/usr/bin/env python3
"""tools/file_round.py <round-dir>   e.g. /tmp/seeded5
Files the changes an area/category-focused round of sub-agents produced (<round-dir>/<agent>/m<k>/
with meta.json naming the property) under /tmp/seeded/<property>/m<next>, numbering after the
changes already collected in /verif/seeded and staged in /tmp/seeded. Prints the property ids
that received something (for tools/confirm_seeded.sh) and writes the patch list for the lanes."""
import glob, json, os, re, shutil, sys
rd = sys.argv[1]
touched = {}
lines = []
only = sys.argv[2:]          # optional: agent directory names to file now
done = set()
for f in glob.glob('/tmp/seeded/*/m*/meta.json'):
    try:
        done.add(json.load(open(f)).get('origin'))
    except Exception:
        pass
for d in sorted(glob.glob(rd + '/*/m*')):
    if not os.path.exists(d + '/patch.diff') or not os.path.exists(d + '/demo.rs'):
        continue
    if only and d.split('/')[-2] not in only:
        continue
    if os.path.relpath(d, rd) in done:
        continue
    try:
        meta = json.load(open(d + '/meta.json'))
    except Exception as e:
        print('skip', d, e, file=sys.stderr)
        continue
    m = re.search(r'C\d\d', str(meta.get('property', '')))
    if not m:
        print('skip (no property)', d, file=sys.stderr)
        continue
    pid = m.group(0)
    used = [int(re.search(r'-m(\d+)$', p).group(1)) for p in glob.glob(f'/verif/seeded/{pid}-m*')]
    used += [int(os.path.basename(p)[1:]) for p in glob.glob(f'/tmp/seeded/{pid}/m*')]
    k = max(used + [0]) + 1
    dst = f'/tmp/seeded/{pid}/m{k}'
    os.makedirs(dst)
    for f in ('patch.diff', 'demo.rs'):
        shutil.copy(d + '/' + f, dst + '/' + f)
    meta['property'] = pid
    meta['origin'] = os.path.relpath(d, rd)
    json.dump(meta, open(dst + '/meta.json', 'w'), indent=1)
    touched.setdefault(pid, []).append(k)
    stage = f'/verif/work/sp_round/{pid}-m{k}'
    os.makedirs(stage, exist_ok=True)
    shutil.copy(d + '/patch.diff', stage + '/patch.diff')
    lines.append(f'{stage}/patch.diff ' + ' '.join(f'C{i:02d}' for i in range(1, 21)))
open('/verif/work/round_list.txt', 'a').write('\n'.join(lines) + '\n')
print(' '.join(sorted(touched)))
for p, ks in sorted(touched.items()):
    print(p, ks, file=sys.stderr)
