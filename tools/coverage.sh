#!/usr/bin/env bash
# tools/coverage.sh - line coverage of the library sources (/repo) reached by the QUICK tier of all twenty checks
# (checked configuration, magic back end). Informational: shows which library lines no check executes.
# Needs the nightly toolchain's llvm-tools (present in this image). Output: work/coverage/summary.txt
set -u
ROOT=/verif; H=$ROOT/harness; OUT=$ROOT/work/coverage
BIN_DIR="$(dirname "$(rustup which --toolchain nightly rustc)")/../lib/rustlib/x86_64-unknown-linux-gnu/bin"
rm -rf "$OUT"; mkdir -p "$OUT/prof"
(cd "$H" && LLVM_PROFILE_FILE="$OUT/prof/build-%p.profraw" RUSTFLAGS="-C instrument-coverage" cargo +nightly build --release --target-dir target-cov) >"$OUT/build.log" 2>&1 || { tail "$OUT/build.log"; exit 2; }
export VERIF_ROOT="$OUT/root"; mkdir -p "$VERIF_ROOT/evidence" "$VERIF_ROOT/replays" "$VERIF_ROOT/work"
cp "$ROOT/known_findings.json" "$VERIF_ROOT/"; cp -r "$ROOT/regress" "$VERIF_ROOT/"
for id in C01 C02 C03 C04 C05 C06 C07 C08 C09 C10 C11 C12 C13 C14 C15 C16 C17 C18 C19 C20; do
  VCHECK_CASES_DIV=40 LLVM_PROFILE_FILE="$OUT/prof/$id-%p.profraw" timeout 900 "$H/target-cov/release/vcheck" $id quick --sub "$OUT/$id.json" >/dev/null 2>&1
done
rm -f "$OUT"/prof/build-*.profraw
"$BIN_DIR/llvm-profdata" merge -sparse "$OUT"/prof/*.profraw -o "$OUT/all.profdata"
"$BIN_DIR/llvm-cov" report "$H/target-cov/release/vcheck" -instr-profile="$OUT/all.profdata" --ignore-filename-regex='(\.cargo|rustc|/verif/)' > "$OUT/summary.txt" 2>/dev/null
"$BIN_DIR/llvm-cov" show "$H/target-cov/release/vcheck" -instr-profile="$OUT/all.profdata" --ignore-filename-regex='(\.cargo|rustc|/verif/)' --show-line-counts-or-regions > "$OUT/lines.txt" 2>/dev/null
rm -f /repo/cozy-chess/*.profraw /repo/types/*.profraw /repo/*.profraw "$OUT"/prof/build-*.profraw
cat "$OUT/summary.txt"
