#!/usr/bin/env bash
# tools/confirm_seeded.sh <ID> [src-root]   - confirm every mutation src-root/<ID>/m<k> (default /tmp/seeded) in the
# scratch worktree /tmp/wt/<ID>: demo passes on the clean tree, fails with the patch, repo suite passes with the patch.
set -u
ID="$1"; SRC="${2:-/tmp/seeded}"; WT="/tmp/wt/$ID"; OUT=/verif/work/seeded_confirm.txt
[ -d "$WT" ] || { echo "$ID: no worktree $WT" >> "$OUT"; exit 2; }
clean() { git -C "$WT" checkout -q -- . ; git -C "$WT" clean -fdq -e target; }
for D in "$SRC/$ID"/m*; do
  [ -f "$D/patch.diff" ] || continue
  k="$(basename "$D")"
  grep -q "^$ID/$k " "$OUT" 2>/dev/null && continue
  cmd="$(python3 - "$D/meta.json" <<'PY'
import json,re,sys
try: c=json.load(open(sys.argv[1])).get('demo_cmd','')
except Exception: c=''
m=re.search(r'cargo run[^&;#(]*', c)
run=(m.group(0).strip() if m else 'cargo run --offline --example demo')
if '--offline' not in run: run=run.replace('cargo run','cargo run --offline')
if '--example' not in run: run+=' --example demo'
f=re.search(r'RUSTFLAGS=("[^"]*"|\S+)', c)
print((f.group(0)+' ' if f else '')+run)
PY
)"
  clean
  cp "$D/demo.rs" "$WT/cozy-chess/examples/demo.rs"
  ( cd "$WT" && eval "$cmd" ) > "$D/confirm_clean.log" 2>&1; rc_clean=$?
  if ! git -C "$WT" apply "$D/patch.diff" 2> "$D/confirm_apply.log"; then echo "$ID/$k APPLY-FAILED" >> "$OUT"; clean; continue; fi
  ( cd "$WT" && eval "$cmd" ) > "$D/confirm_patched.log" 2>&1; rc_patched=$?
  rm -f "$WT/cozy-chess/examples/demo.rs"
  ( cd "$WT" && cargo test --workspace --no-fail-fast --offline ) > "$D/confirm_suite.log" 2>&1; rc_suite=$?
  verdict="CONFIRMED"
  [ $rc_clean -eq 0 ] || verdict="REJECTED(demo fails on clean tree)"
  [ $rc_patched -ne 0 ] || verdict="REJECTED(demo passes with patch)"
  [ $rc_suite -eq 0 ] || verdict="REJECTED(repo suite fails with patch)"
  echo "$ID/$k demo_clean=$rc_clean demo_patched=$rc_patched suite=$rc_suite $verdict cmd='$cmd'" >> "$OUT"
  clean
done
