#!/usr/bin/env python3
"""Re-inserts the generated sensitivity tables into DESIGN.md between the marker comments."""
import subprocess,re
out=subprocess.check_output(['python3','/verif/tools/sensitivity_table.py']).decode()
mut,seeded=out.split('\n\n',1)
s=open('/verif/DESIGN.md').read()
def put(s,tag,body):
    begin=f'<!-- {tag}:begin -->'; end=f'<!-- {tag}:end -->'
    block=f'{begin}\n{body.strip()}\n{end}'
    if begin in s:
        return re.sub(re.escape(begin)+r'.*?'+re.escape(end),lambda m:block,s,flags=re.S)
    return s.replace(tag,block,1)
s=put(s,'MUTANT_TABLE',mut); s=put(s,'SEEDED_TABLE',seeded)
open('/verif/DESIGN.md','w').write(s)
