#!/usr/bin/env python3
"""Regenerates /verif/MANIFEST.json (kept in git; run after changing the set of checks)."""
import json, os
ROOT = os.path.dirname(os.path.dirname(os.path.abspath(__file__)))
REF = "trusts the mailbox reference model in harness/src/refmodel.rs (validated at start-up against published perft counts to depth 3-4 on ten positions) and the proptest generators' reach as reported in the evidence class histogram"
C = {
 "C01": ("generated-position search: move multiset from generate_moves compared with a make-and-test reference move generator on millions of boards per run (DFRC starts, seed FENs, constructed castle/en-passant/pin/promotion/mate/battery/crowded motifs, accepted near-invalid builder states, positions along histories with null moves), in the magic and the PEXT build; thorough enumerates all 960x960 start pairs. Sampling, not proof: absence of a defect outside the generated classes is not established.", REF, "proptest + enumeration vs reference move generator (differential)"),
 "C02": ("every reference-legal move of every visited position is played with play/try_play/play_unchecked and the successor compared field by field and as text with the reference successor (clocks at caps included). Sampling over positions, exhaustive over the moves of each.", REF, "proptest histories, differential vs reference make()"),
 "C03": ("stateful search: after every op of generated histories checkers()/pinned() are compared with their definition and the board with freshly built/parsed boards; commuting transposition pairs compared with ==.", REF, "stateful proptest (op sequences) with invariant after each step"),
 "C04": ("for each sampled board all 64x64x7 move values are put to is_legal and compared with the library's own generated set; exhaustive per board, boards sampled.", "trusts only the library's generator as the comparison side, as the property states; C01 ties that generator to the rules", "proptest boards x exhaustive move-value enumeration (differential is_legal vs generate_moves)"),
 "C05": ("exhaustive over every ray-subset occupancy per square and slider kind (3 settings of the other bits) and over every entry of the knight/king/pawn/ray/between/line tables and pawn-push settings, against an independent ray walker, in the magic and the PEXT build; random full occupancies on top. The 2^64 occupancy space itself is sampled.", "trusts the ray walker in harness/src/props/c05.rs as the geometric definition; independence of non-ray bits is sampled", "exhaustive enumeration + random occupancies vs independent ray walker, two back ends"),
 "C06": ("every board the harness obtains (builder on near-invalid edited states, parser on mutated strings, start constructors, play/null results, clock setters with every argument in the checked and the unchecked build) is judged by the reference structural check; every position reached by play from an accepted start must re-enter via text and builder.", REF, "proptest (edited builder states, mutated FEN strings, histories) vs structural validity predicate; round-trip for acceptance"),
 "C07": ("round trip and canonical-text checks on every visited board in both notations, pair checks (equality vs text equality), families of boards differing only in clocks or only in castling rights compared pairwise, reference-written canonical records parsed and re-formatted (incl. records and placements of maximal length); thorough tier: constructed 64-bit hash collisions (kind-only and colour-only differences) must compare unequal.", "trusts the reference formatter as the definition of the canonical record", "proptest round-trip + differential vs reference formatter"),
 "C08": ("totality (catch_unwind), structural strictness and faithful decoding on ~10^6 mutated/arbitrary strings per run through all three entry points; error attribution on labelled single-field corruptions of canonical records of accepted boards; thorough adds a coverage-guided libFuzzer campaign on the same oracle.", "trusts the tolerant reference decoder (digit 0, '+', leading zeros tolerated) and the corruption labels; no expectation for multi-defect strings", "proptest string mutation + labelled corruption generator, libFuzzer (thorough), vs reference decoder"),
 "C09": ("builder states (valid, edited, 3+ checkers) are rendered as Shredder records by the harness; build() and from_fen must agree on acceptance and give == boards; inexpressible states rejected; single-aspect corruptions must name the aspect (by the reference, and reference-free: the one aspect whose neutralisation makes the library accept); accepted boards round-trip through from_board, whose fields and accessors must show the board.", REF, "proptest differential builder vs parser"),
 "C10": ("on every visited board the hash is compared across builder/text routes with different clocks, hash_without_ep with the EP-cleared position, and with the XOR of per-feature keys extracted through the public API; transposition pairs; boards parsed from mutated text; thorough tier: constructed boards whose hash is 0, 1 or all-ones.", "trusts the accessor view of the board; key extraction boards must be accepted by the library", "stateful proptest + metamorphic relations (route independence) + affine key model"),
 "C11": ("(a) exhaustive over the observable key family: every feature-difference set of size 1..4 searched for a zero XOR with pair tables, a hit counted only when two accepted boards realise it; (b) sampled direct pairs at feature distance 1..4 on realistic boards.", "(a) rests on the XOR-linearity of the hash, which C10 checks on every board it visits; single king keys and back-rank pawn keys are unobservable on accepted boards", "exhaustive key-set enumeration (meet-in-the-middle) + proptest pair generation"),
 "C12": ("status() compared with the reference on every visited board, with mate/stalemate nets and clocks 98..100 generated on purpose, null-move successors, and constructed positions in which a chosen move (castling, en passant, two-square block, promotion, ...) is the only legal one.", REF, "proptest vs reference model"),
 "C13": ("same_position compared with the reference FIDE identity on generated pairs (clocks, EP cleared/moved, one feature changed, unrelated), with en-passant motifs including non-pawns on the capture square; reflexive/symmetric/transitive on the generated tuples; thorough tier: constructed pairs of different boards with equal 64-bit hashes.", REF, "proptest pair generation vs reference relation"),
 "C14": ("null_move compared with the reference on every visited board of histories interleaving null moves; result must be == a freshly built board.", REF, "stateful proptest vs reference model"),
 "C15": ("try_play on all 64x64x7 move values per sampled board vs reference legality, atomicity on failure, agreement with play_unchecked; play() panics exactly on illegal moves (sample), in the checked build and in the build without debug assertions.", REF, "proptest boards x exhaustive move-value enumeration vs reference"),
 "C16": ("masked generation vs reference legal moves filtered by origin for 12 mask families, batch count/non-emptiness, abort contract at every call index.", REF, "proptest (board, mask, abort point) vs reference"),
 "C17": ("pure-data search over (piece, origin, destination set, consumed count) with all 1344 membership queries per batch against a model enumeration, and every consuming Iterator method on fresh, partially consumed and exhausted iterators against plain next() stepping.", "trusts the model enumeration written from the property statement", "proptest vs executable model"),
 "C18": ("set-algebra laws on generated pairs of 64-bit patterns against a BTreeSet model; complete subset enumeration for masks up to 14 bits; every consuming Iterator method on fresh, partially consumed and exhausted square and subset iterators against plain next() stepping.", "trusts BTreeSet as the set model", "proptest vs set model"),
 "C19": ("exhaustive: try_offset over all 64x256x256 arguments in the overflow-checked and the unchecked build, all enum values, all 64x64x5 moves, all strings of length <= 5 over a 16-symbol alphabet; generated: mutated valid texts and arbitrary Unicode; thorough adds libFuzzer.", "string space beyond the enumerated part is sampled", "exhaustive enumeration + proptest strings + libFuzzer (thorough), two build profiles"),
 "C20": ("SAN writer compared character for character with a reference PGN-standard SAN writer for every legal move of every visited board and inverted by the reader; reader judged on component-built strings against the set of matching legal moves; UCI pair on orthodox-rights boards.", REF + "; capture mark and check suffix are treated as decoration for the reader", "proptest vs reference SAN writer; component-labelled string generator"),
}
ids = sorted(C)
checks = []
for i in ids:
    text, note, tech = C[i]
    checks.append({
        "property_id": i,
        "quick_cmd": f"./check {i} quick",
        "thorough_cmd": f"./check {i} thorough",
        "evidence_file": f"/verif/evidence/{i}.json",
        "replay_cmd_template": f"./check {i} --replay {{path}}",
        "engine": "vcheck",
        "level_claimed": {"category": "exploration", "text": text, "design_ref": f"DESIGN.md section 5, {i}"},
        "level_note": note,
        "technique": tech,
    })
m = {
    "version": 1,
    "setup_cmd": "./check build",
    "hooks": {
        "guard": "--cfg cozy_chess_verif",
        "enable": "no hooks exist: every property is observed through the public API, so checks build /repo unmodified (path dependency from /verif/harness)",
        "baseline_off_cmd": "cd /repo && cargo test --workspace --no-fail-fast --offline",
        "source_commits": [],
        "add_only": True,
    },
    "engines": [
        {"name": "vcheck", "path": "harness", "serves_properties": ids, "kind_free_text": "Rust harness (lib verif_core + bin vcheck): proptest strategies driven through TestRunner on 16 shards, exhaustive enumerations, mailbox reference chess model, replay codec; built in three configurations (checked, checked+pext, unchecked)"},
        {"name": "fuzz", "path": "fuzz", "serves_properties": ["C01", "C02", "C03", "C06", "C08", "C09", "C10", "C12", "C14", "C19", "C20"], "kind_free_text": "cargo-fuzz/libFuzzer targets calling the same oracles (thorough tier only)"},
    ],
    "checks": checks,
    "not_applicable": [],
    "notes": "Exit codes of every command: 0 held, 1 violation (with VIOLATION line and replay file), 2 infrastructure/inconclusive. known_findings.json lists eight defects, all repaired by fix: commits in /repo (status fixed, suppress nothing). regress/ holds their minimal cases, replayed at the start of every run. seeded/ holds 269 independently written breaking changes with what caught them; mutants/ holds 66 hand-written ones (DESIGN.md section 8).",
}
json.dump(m, open(os.path.join(ROOT, "MANIFEST.json"), "w"), indent=1)
print("wrote MANIFEST.json with", len(checks), "checks")
